#!/bin/bash
# usage: tools/seedtest.sh <seed_dir> <check id>...
# Applies <seed_dir>/patch.diff to /repo, confirms the repository's own tests still pass and the
# demonstration fails, runs the given checks (quick), then restores /repo. Prints one summary line.
set -u
SD=$1; shift
export GOFLAGS=-mod=mod GOPROXY=off GOSUMDB=off GOTOOLCHAIN=local GOCACHE=/verif/.cache/go-build
cd /repo || exit 2
if [ -n "$(git status --porcelain)" ]; then echo "SEEDTEST: /repo not clean"; exit 2; fi
restore() { git -C /repo checkout -- . ; rm -f /repo/zz_seed_demo_test.go; git -C /repo clean -fdq; }
trap restore EXIT
# demo must pass on the unchanged tree
cp "$SD/demo_test.go" /repo/zz_seed_demo_test.go
BASE=$(timeout 300 go test -vet=off -count=1 -run 'TestSeedDemo' . 2>&1 | tail -1)
rm -f /repo/zz_seed_demo_test.go
if ! git apply "$SD/patch.diff" 2>/dev/null; then
  if ! patch -p1 -s -F3 < "$SD/patch.diff" >/dev/null 2>&1; then echo "SEEDTEST $SD: patch does not apply"; exit 3; fi
  find . -name '*.orig' -delete; find . -name '*.rej' -delete
fi
SUITE=$(timeout 600 go test -vet=off -count=1 ./... 2>&1 | grep -E '^(ok|FAIL|---)' | head -3 | tr '\n' ' ')
cp "$SD/demo_test.go" /repo/zz_seed_demo_test.go
DEMO=$(timeout 300 go test -vet=off -count=1 -run 'TestSeedDemo' . 2>&1 | tail -1)
rm -f /repo/zz_seed_demo_test.go
echo "SEEDTEST $SD: demo-on-clean=[$BASE] suite-with-patch=[$SUITE] demo-with-patch=[$DEMO]"
for ID in "$@"; do
  OUT=$(cd /verif && timeout 900 bin/check $ID quick 2>&1)
  RC=$?
  NV=$(echo "$OUT" | grep -c '^VIOLATION')
  echo "  check $ID: exit=$RC violations=$NV  $(echo "$OUT" | grep -A2 '^VIOLATION' | grep 'what:' | head -1 | cut -c1-260)"
done
