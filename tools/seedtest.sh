#!/bin/bash
# usage: tools/seedtest.sh <seed_dir> <check id>...
# Tries one property-breaking change WITHOUT touching /repo: makes a scratch worktree of /repo's HEAD, applies
# <seed_dir>/patch.diff there, confirms the repository's own tests still pass and the demonstration fails,
# runs the given checks (quick) against that worktree (VERIF_REPO), then removes the worktree.
set -u
SD=$1; shift
export GOFLAGS=-mod=mod GOPROXY=off GOSUMDB=off GOTOOLCHAIN=local GOCACHE=/verif/.cache/go-build
T=$(mktemp -d /tmp/seedrepo.XXXXXX)
git -C /repo worktree add --detach "$T/r" HEAD >/dev/null 2>&1 || { echo "SEEDTEST: cannot create worktree"; exit 2; }
cleanup() { git -C /repo worktree remove --force "$T/r" >/dev/null 2>&1; rm -rf "$T"; }
trap cleanup EXIT
cd "$T/r" || exit 2
cp "$SD/demo_test.go" zz_seed_demo_test.go 2>/dev/null || cp "$SD/demo_test.go.txt" zz_seed_demo_test.go
BASE=$(timeout 300 go test -vet=off -count=1 -run 'TestSeedDemo' . 2>&1 | tail -1)
rm -f zz_seed_demo_test.go
# --3way merges against the blobs the patch was written for (recorded in its index lines), so that a hunk whose
# context occurs twice in the file lands on the right copy even after /repo's HEAD has moved
if ! git apply --3way "$SD/patch.diff" >/dev/null 2>&1 && ! git apply "$SD/patch.diff" 2>/dev/null; then
  if ! patch -p1 -s -F3 < "$SD/patch.diff" >/dev/null 2>&1; then echo "SEEDTEST $SD: patch does not apply"; exit 3; fi
  find . -name '*.orig' -delete; find . -name '*.rej' -delete
fi
SUITE=$(timeout 600 go test -vet=off -count=1 . 2>&1 | grep -E '^(ok|FAIL|---)' | head -3 | tr '\n' ' ')
cp "$SD/demo_test.go" zz_seed_demo_test.go 2>/dev/null || cp "$SD/demo_test.go.txt" zz_seed_demo_test.go
DEMO=$(timeout 300 go test -vet=off -count=1 -run 'TestSeedDemo' . 2>&1 | tail -1)
rm -f zz_seed_demo_test.go
echo "SEEDTEST $SD: demo-on-clean=[$BASE] suite-with-patch=[$SUITE] demo-with-patch=[$DEMO]"
for ID in "$@"; do
  OUT=$(cd /verif && VERIF_REPO="$T/r" VERIF_EVIDENCE="$T/ev" VERIF_REPLAYS="$T/rp" timeout 900 bin/check $ID quick 2>&1)
  RC=$?
  NV=$(echo "$OUT" | grep -c '^VIOLATION')
  echo "  check $ID: exit=$RC violations=$NV  $(echo "$OUT" | grep -A2 '^VIOLATION' | grep 'what:' | head -1 | cut -c1-260)"
done
