#!/bin/bash
# usage: tools/mkseedround.sh <root under /tmp> [task template]
# Prepares one round of independently written property-breaking changes: per property a scratch worktree of /repo's
# HEAD under <root>, the property text (prop_<ID>.txt, nothing from /verif's machinery), the list of what earlier
# rounds already produced (done_<ID>.txt) and the task text (TASK.md). Sub-agents get only these.
set -e
R=$1; TPL=${2:-/verif/tools/seed_task_template.md}; mkdir -p "$R"
sed "s#@ROOT@#$R#g" "$TPL" > "$R/TASK.md"
python3 - "$R" <<'P'
import json,glob,os,re,sys
R=sys.argv[1]
for l in open('/verif/properties.jsonl'):
    d=json.loads(l); pid=d['id']; q=d['quantifier']; a=d['anchors']
    open(f'{R}/prop_{pid}.txt','w').write("Property %s: %s\n\nStatement: %s\n\nQuantifier (%s): %s\n\nWhy the existing tests cannot settle it: %s\n\nAnchors (approximate): files=%s\nstate=%s\nmechanism=%s\nobserve_at=%s\n"%(pid,d['title'],d['statement'],", ".join(q['over']),q['text'],d['why_tests_cant'],a.get('files'),json.dumps(a.get('state')),json.dumps(a.get('mechanism')),a.get('observe_at')))
    out=["Already done by others for this property (yours must be different in kind: another code site AND another trigger):"]
    for n,dd in enumerate(sorted(glob.glob('/verif/seeded/%s-*'%pid)),1):
        m=json.load(open(dd+'/meta.json'))
        name=os.path.basename(dd).split('-',2)[2].replace('-',' ')
        needs=m['needs_to_manifest']
        for pat in (r'\s*\((first[^)]*|caught[^)]*)\)\s*$', r'\.\s*Reported by.*$', r';\s*manifests in the .*$', r'\s*\(shows in .*$'):
            needs=re.sub(pat,'',needs)
        out.append("(%d) %s: needs %s"%(n,name,needs))
    open(f'{R}/done_{pid}.txt','w').write("\n".join(out)+"\n")
P
for i in $(seq -w 1 20); do git -C /repo worktree add -q --detach "$R/C$i" HEAD; done
echo "prepared $R"
