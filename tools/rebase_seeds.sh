#!/bin/bash
# Re-generates every seeded patch.diff against /repo's current HEAD (so that plain `git apply` works).
# A patch is merged three-way against the blobs it was written for; if that conflicts the patch is left as it is and
# reported, to be re-based by hand.
T=$(mktemp -d /tmp/seedrebase.XXXXXX)
git -C /repo worktree add --detach "$T/r" HEAD >/dev/null 2>&1
for d in /verif/seeded/*/; do
  n=$(basename "$d")
  ( cd "$T/r" && git reset -q --hard HEAD && git clean -fdq
    if git apply --3way "$d/patch.diff" >/dev/null 2>&1 && ! git diff --name-only --diff-filter=U | grep -q .; then
      git reset -q; git diff > "$d/patch.diff.new"
      if cmp -s "$d/patch.diff" "$d/patch.diff.new"; then rm "$d/patch.diff.new"; echo "$n: applies"; else mv "$d/patch.diff.new" "$d/patch.diff"; echo "$n: re-based (3-way)"; fi
    else
      git reset -q --hard HEAD
      if git apply "$d/patch.diff" 2>/dev/null; then echo "$n: applies (plain)"; else echo "$n: CONFLICT - left as it is"; fi
    fi )
done
git -C /repo worktree remove --force "$T/r"; rm -rf "$T"
