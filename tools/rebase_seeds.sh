#!/bin/bash
# Re-generates every seeded patch.diff against /repo's current HEAD (so that plain `git apply` works).
T=$(mktemp -d /tmp/seedrebase.XXXXXX)
git -C /repo worktree add --detach "$T/r" HEAD >/dev/null 2>&1
for d in /verif/seeded/*/; do
  n=$(basename "$d")
  ( cd "$T/r" && git checkout -q -- . && git clean -fdq
    if git apply "$d/patch.diff" 2>/dev/null; then echo "$n: applies"
    elif patch -p1 -s -F3 < "$d/patch.diff" >/dev/null 2>&1; then find . -name '*.orig' -delete; find . -name '*.rej' -delete; git diff > "$d/patch.diff"; echo "$n: re-based"
    else echo "$n: DOES NOT APPLY"; fi )
done
git -C /repo worktree remove --force "$T/r"; rm -rf "$T"
