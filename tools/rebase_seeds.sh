#!/bin/bash
# Re-generates every seeded patch.diff against /repo's current HEAD (so that plain `git apply` works).
T=$(mktemp -d /tmp/seedrebase.XXXXXX)
git -C /repo worktree add --detach "$T/r" HEAD >/dev/null 2>&1
for d in /verif/seeded/*/; do
  n=$(basename "$d")
  ( cd "$T/r" && git checkout -q -- . && git clean -fdq
    if git apply --3way "$d/patch.diff" >/dev/null 2>&1; then git reset -q; git diff > "$d/patch.diff.new"; if cmp -s "$d/patch.diff" "$d/patch.diff.new"; then rm "$d/patch.diff.new"; echo "$n: applies"; else mv "$d/patch.diff.new" "$d/patch.diff"; echo "$n: re-based (3-way)"; fi
    elif patch -p1 -s -F3 < "$d/patch.diff" >/dev/null 2>&1; then find . -name '*.orig' -delete; find . -name '*.rej' -delete; git diff > "$d/patch.diff"; echo "$n: re-based"
    else echo "$n: DOES NOT APPLY"; fi )
done
git -C /repo worktree remove --force "$T/r"; rm -rf "$T"
