#!/bin/bash
# Runs every seeded change against the check(s) named in its meta.json (quick tier, scratch worktree, /repo untouched).
# usage: tools/seedall.sh [parallelism]
P=${1:-3}
cd /verif
for d in seeded/*/; do
  n=$(basename "$d")
  ids=$(python3 -c "import json;m=json.load(open('$d/meta.json'));print('' if 'obsolete_since' in m else ' '.join(m['caught_by'][:1]))")
  if [ -z "$ids" ]; then echo "SEEDTEST /verif/$d: obsolete (see meta.json), skipped" >&2; continue; fi
  echo "/verif/$d $ids"
done | xargs -P "$P" -L 1 bash -c 'tools/seedtest.sh $0 $1 2>&1 | tr "\n" " " | cut -c1-260; echo'
