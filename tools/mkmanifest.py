#!/usr/bin/env python3
"""Regenerates /verif/MANIFEST.json from the table below (kept in one place so it stays valid)."""
import json, os, sys
V = os.path.dirname(os.path.dirname(os.path.abspath(__file__)))
props = [json.loads(l) for l in open(os.path.join(V, "properties.jsonl"))]
ids = [p["id"] for p in props]

E1NOTE = "Trusted: x/net/html tokenizer/ParseFragment as the observer; the harness's spec view (documented meaning of builder calls, internal/spec). Nothing is claimed outside the stated alphabets, bounds and policy family."
def e1(ref, text, note=E1NOTE, tech="bounded-exhaustive enumeration of inputs x builder-assembled policies on the real implementation, independent oracle per execution"):
    return ("model_checking", tech, "E1", ref, text, note)
CHECKS = {
 "C01": e1("DESIGN.md §4 C01", "Every fragment sequence (length<=3 over 93 fragments, <=4 over the 29-fragment core) and every byte string (<=5 over 22 bytes) is executed against 14 named policies and every <=2-subset of a 17-call builder alphabet; each output is re-tokenised and re-parsed in 8 flow contexts and every tag/comment/doctype found must be allowlisted. Exhaustive within those bounds; thorough deepens every bound by one."),
 "C02": e1("DESIGN.md §4 C02", "Every attribute list (<=2 on all of 638 generated policies crossing rule scope x value pattern x overlap x AllowNoAttrs x data attributes, one deeper on a fifth of them) over a 24-attribute alphabet on six element classes, start and self-closing; every surviving attribute must be justified by a rule of the spec view, a well-formed data-* name, governed style or a forced attribute; bare tags must be bare-allowed."),
 "C03": e1("DESIGN.md §4 C03", "Every URL string (<=3 fragments over a 46-fragment URL alphabet, <=4 bytes over 13) in each of the 17 element/attribute positions x scheme allowlist / relative / custom check / scheme regexp / rewriter variants; every surviving value is classified by a WHATWG-style scheme extractor that does not use net/url."),
 "C04": e1("DESIGN.md §4 C04", "Hostile sweep (206 elements x 249 attributes x 7 value classes, XSS alphabet sequences <=3) against StrictPolicy and UGCPolicy judged on the DOM in 8 containers against the harness's transcription of the documented UGC vocabulary plus an independent blacklist; converse: ~61k generated conforming documents must come back unchanged apart from rel=nofollow."),
 "C05": e1("DESIGN.md §4 C05", "Every sequence <=3 over 47 script/style forms with uniquely numbered text markers (<=4 over a 20-fragment core) and byte strings glued to the literal names, against 10 policies that try to allow script/style without AllowUnsafe; no script/style tag or element in the output and no marker the tree builder places inside script/style of the input survives."),
 "C06": e1("DESIGN.md §4 C06", "Every sequence <=3 over a 61-fragment text-heavy alphabet and byte strings <=5, against every policy of the family in the property's class with and without space insertion; exact two-pointer alignment of re-tokenised input and output (characters unchanged, tags kept or replaced by nothing / one space, no new tags)."),
 "C07": e1("DESIGN.md §4 C07", "For 120 generated overlapping-rule policies (every unordered pair of rule shapes over scope x pattern) and 11 named ones, every document their own vocabulary generates (elements x <=2 attributes x witness values x nesting depth 2, ~2.5M documents) must be returned byte for byte modulo forced attributes."),
 "C10": e1("DESIGN.md §4 C10", "Every sequence of <=3 declarations over a 38-declaration alphabet (incl. an escape alphabet) on four element classes against 42 style rule sets (scope x matcher kind x style attribute admitted or not); output style re-split the way a browser does, each declaration justified on lower(css-decode(value)); exact expected output for escape-free inputs."),
 "C11": e1("DESIGN.md §4 C11", "a/area/link x every attribute list <=3 over 22 href/rel/target/other attributes x all 32 link-option combinations x rel admitted (no pattern / SpaceSeparatedTokens / not) x target admitted or not; requirements judged on the first rel/target as a browser reads duplicates, tokens compared ASCII case-insensitively."),
 "C12": e1("DESIGN.md §4 C12", "Five media elements x every attribute list <=4 over crossorigin forms, iframe x every list <=3 over sandbox token sequences, x crossorigin/sandbox admitted or not x every sandbox subset of size <=2 plus the full set (thorough: all 16384 subsets)."),
 "C18": e1("DESIGN.md §4 C18", "For each of the 213 default handlers: every pool token it accepts and every accepted 2-3 token combination, with each of 14 hostile fragments inserted at every byte position, glued at both ends and substituted; the handler must reject all (~10M handler calls), the unknown-property handler rejects the pool, and Sanitize end to end removes a per-position subset.",
          "Trusted: the harness's hostile-construct scanner and CSS escape decoder. Vocabulary pool is extracted from css/handlers.go's string literals at check time plus a fixed list of numeric/functional forms."),
 "C19": e1("DESIGN.md §4 C19", "Per exported matcher: all strings up to length 4-6 over its own alphabet plus 11 HTML-significant characters, and all single and double edits of every documented example (82M strings); a match must be accepted by a hand-written recogniser of the documented form, and every documented example must match.",
          "Trusted: the recognisers in internal/checks/c19.go."),
 "C20": e1("DESIGN.md §4 C20", "Fragment sequences (<=3 over F, <=4 core), URL strings in three positions, link attribute lists <=3, against every policy of the family inside the property's class plus Strict and UGC (with the del/ins proviso): Sanitize(Sanitize(x)) == Sanitize(x). One known finding (rel/target order) is listed in known_findings.jsonl."),
}

built = [i for i in ids if i in CHECKS and os.environ.get("ONLY", i) ]
checks = []
for i in ids:
    if i not in CHECKS: continue
    level, tech, eng, ref, text, note = CHECKS[i]
    checks.append({
        "property_id": i,
        "quick_cmd": f"bin/check {i} quick",
        "thorough_cmd": f"bin/check {i} thorough",
        "evidence_file": f"/verif/evidence/{i}.json",
        "replay_cmd_template": "bin/check replay {path}",
        "engine": eng,
        "level_claimed": {"category": level, "text": text, "design_ref": ref},
        "level_note": note,
        "technique": tech,
    })
na = [{"property_id": i, "reason": "check not built yet at this revision (work in progress; see DESIGN.md §4 for the planned model-checking engine)"} for i in ids if i not in CHECKS]
m = {
 "version": 1,
 "setup_cmd": "bin/setup",
 "hooks": {
   "guard": "verif",
   "enable": "no hooks are committed in /repo: instrumentation is generated from /repo's working tree at check time by harness/cmd/instrument and applied with `go build -tags verif -overlay`",
   "baseline_off_cmd": "cd /repo && GOFLAGS=-mod=mod GOPROXY=off GOSUMDB=off GOTOOLCHAIN=local go test -json -vet=off -count=1 -timeout 25m ./...",
   "source_commits": [],
   "add_only": True,
 },
 "engines": [
   {"name": "E1", "path": "harness/internal/checks", "serves_properties": [i for i in ids if i in CHECKS and CHECKS[i][2]=="E1"], "kind_free_text": "stateless bounded-exhaustive sequence enumerator over fragment/byte alphabets x policy family, sharded by input hash over 16 worker processes"},
 ],
 "checks": checks,
 "not_applicable": na,
 "notes": "All checks rebuild the harness against /repo's current working tree (go build with replace => /repo). Known findings: /verif/known_findings.jsonl.",
}
json.dump(m, open(os.path.join(V, "MANIFEST.json"), "w"), indent=1)
print("wrote MANIFEST.json with", len(checks), "checks,", len(na), "not_applicable")
