#!/usr/bin/env python3
"""Regenerates /verif/MANIFEST.json from the table below (kept in one place so it stays valid)."""
import json, os, sys
V = os.path.dirname(os.path.dirname(os.path.abspath(__file__)))
props = [json.loads(l) for l in open(os.path.join(V, "properties.jsonl"))]
ids = [p["id"] for p in props]

CHECKS = {
 # id: (level, technique, engine, design_ref, text, note)
 "C01": ("model_checking", "bounded-exhaustive enumeration of input fragment/byte sequences x builder-assembled policies on the real Sanitize; tokenizer + tree-builder oracle",
         "E1", "DESIGN.md §4 C01",
         "Every fragment sequence (length<=3 over 93 fragments, <=4 over the 29-fragment core) and every byte string (<=5 over 22 bytes) is executed against 14 named policies and every <=2-subset of a 17-call builder alphabet; each output is re-tokenised and re-parsed in 8 flow contexts and every tag/comment/doctype found must be allowlisted. Exhaustive within those bounds; thorough deepens every bound by one.",
         "Trusted: x/net/html tokenizer/ParseFragment as the observer; the harness's spec view (documented meaning of builder calls). Nothing claimed outside the alphabets and bounds."),
}

built = [i for i in ids if i in CHECKS and os.environ.get("ONLY", i) ]
checks = []
for i in ids:
    if i not in CHECKS: continue
    level, tech, eng, ref, text, note = CHECKS[i]
    checks.append({
        "property_id": i,
        "quick_cmd": f"bin/check {i} quick",
        "thorough_cmd": f"bin/check {i} thorough",
        "evidence_file": f"/verif/evidence/{i}.json",
        "replay_cmd_template": "bin/check replay {path}",
        "engine": eng,
        "level_claimed": {"category": level, "text": text, "design_ref": ref},
        "level_note": note,
        "technique": tech,
    })
na = [{"property_id": i, "reason": "check not built yet at this revision (work in progress; see DESIGN.md §4 for the planned model-checking engine)"} for i in ids if i not in CHECKS]
m = {
 "version": 1,
 "setup_cmd": "bin/setup",
 "hooks": {
   "guard": "verif",
   "enable": "no hooks are committed in /repo: instrumentation is generated from /repo's working tree at check time by harness/cmd/instrument and applied with `go build -tags verif -overlay`",
   "baseline_off_cmd": "cd /repo && GOFLAGS=-mod=mod GOPROXY=off GOSUMDB=off GOTOOLCHAIN=local go test -json -vet=off -count=1 -timeout 25m ./...",
   "source_commits": [],
   "add_only": True,
 },
 "engines": [
   {"name": "E1", "path": "harness/internal/checks", "serves_properties": [i for i in ids if i in CHECKS and CHECKS[i][2]=="E1"], "kind_free_text": "stateless bounded-exhaustive sequence enumerator over fragment/byte alphabets x policy family, sharded by input hash over 16 worker processes"},
 ],
 "checks": checks,
 "not_applicable": na,
 "notes": "All checks rebuild the harness against /repo's current working tree (go build with replace => /repo). Known findings: /verif/known_findings.jsonl.",
}
json.dump(m, open(os.path.join(V, "MANIFEST.json"), "w"), indent=1)
print("wrote MANIFEST.json with", len(checks), "checks,", len(na), "not_applicable")
