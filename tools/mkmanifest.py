#!/usr/bin/env python3
"""Regenerates /verif/MANIFEST.json from the table below (kept in one place so it stays valid)."""
import json, os, sys
V = os.path.dirname(os.path.dirname(os.path.abspath(__file__)))
props = [json.loads(l) for l in open(os.path.join(V, "properties.jsonl"))]
ids = [p["id"] for p in props]

E1NOTE = "Trusted: x/net/html tokenizer/ParseFragment as the observer; the harness's spec view (documented meaning of builder calls, internal/spec). Nothing is claimed outside the stated alphabets, bounds and policy family."
def e1(ref, text, note=E1NOTE, tech="bounded-exhaustive enumeration of inputs x builder-assembled policies on the real implementation, independent oracle per execution"):
    return ("model_checking", tech, "E1", ref, text, note)
CHECKS = {
 "C01": e1("DESIGN.md §4 C01", "Every fragment sequence (length<=3 over the ~100-fragment alphabet F, <=4 over its 29-fragment core, <=3 over core + a 70-fragment exotic-syntax alphabet) and every byte string (<=5 over 22 bytes) is executed against 25 named policies (incl. AllowUnsafe(true) without script / style allowed, every option set without the elements it concerns, rare builder forms, a zero-value Policy{} with options set first) and every <=2-subset of a 17-call builder alphabet (~48M executions); each output is re-tokenised and re-parsed in 8 flow contexts and every tag / comment / doctype found must be allowlisted. Exhaustive within those bounds; thorough deepens them (554M executions)."),
 "C02": e1("DESIGN.md §4 C02", "Every attribute list (<=2 on all of ~820 generated policies crossing rule scope x value pattern x overlap x AllowNoAttrs (call- and builder-level) x data attributes, one deeper on a fifth of them) over a 33-attribute alphabet (incl. values that match the policies' element patterns and names that Unicode lower-casing folds onto allowed ones) on six element classes, start and self-closing; every surviving attribute must be justified by a rule of the spec view, a well-formed data-* name, governed style or a forced attribute; bare tags must be bare-allowed."),
 "C03": e1("DESIGN.md §4 C03", "Every URL string (<=3 fragments over a 49-fragment URL alphabet incl. encoded slash / backslash, <=4 bytes over 13, data: URIs <=4 over 24 fragments) in each of the 17 element/attribute positions, alone and as a duplicated attribute, x scheme allowlist / relative / custom check / scheme regexp / rewriter / globally-admitted-attribute variants and the boundary shapes of the scheme tables (URL checking on with no scheme allowed, only a pattern, an unanchored pattern, only a custom check) and the data scheme allowed plainly; every surviving value is classified by a WHATWG-style scheme extractor that does not use net/url."),
 "C04": e1("DESIGN.md §4 C04", "Hostile sweep (206 elements x 249 attributes x 7 value classes, XSS alphabet sequences <=3) against StrictPolicy and UGCPolicy judged on the DOM in 8 containers against the harness's transcription of the documented UGC vocabulary plus an independent blacklist; converse: ~61k generated conforming documents must come back unchanged apart from rel=nofollow."),
 "C05": e1("DESIGN.md §4 C05", "Every sequence <=3 over 47 script/style forms with uniquely numbered text markers (<=4 over a 20-fragment core) and byte strings glued to the literal names, against 10 policies that try to allow script/style without AllowUnsafe; no script/style tag or element in the output and no marker the tree builder places inside script/style of the input survives. Two known findings (tokenizer / tree-builder differentials inside svg|math and inside select, output inert) are listed in known_findings.jsonl."),
 "C06": e1("DESIGN.md §4 C06", "Every sequence <=3 over a 61-fragment text-heavy alphabet and byte strings <=5, against every policy of the family in the property's class with and without space insertion; exact two-pointer alignment of re-tokenised input and output (characters unchanged, tags kept or replaced by nothing / one space, no new tags)."),
 "C07": e1("DESIGN.md §4 C07", "For 120 generated overlapping-rule policies (every unordered pair of rule shapes over scope x pattern) and ~20 named ones (bare-after-rules orders, several bare patterns, space insertion, widened custom schemes), every document their own vocabulary generates (elements x <=2 attributes x witness values x nesting depth 2, style attributes of one or two conforming declarations, ~4M documents) data-* attributes and self-closing spellings, and documents with one token of 1 KiB ... 4 MiB must be returned byte for byte modulo forced attributes."),
 "C10": e1("DESIGN.md §4 C10", "Every sequence of <=3 declarations over a 38-declaration alphabet (incl. an escape alphabet) on four element classes against 43 style rule sets (scope x matcher kind x style attribute admitted or not, mixed-case enum / property spellings, a permissive value pattern that lets backslashes, quotes and brackets through), the element class varying fastest; output style re-split the way a browser does, each declaration justified on lower(css-decode(value)); exact expected output for escape-free inputs."),
 "C11": e1("DESIGN.md §4 C11", "a/area/link x every attribute list <=3 over 22 href/rel/target/other attributes x all 32 link-option combinations x rel admitted (no pattern / SpaceSeparatedTokens / not) x target admitted or not; requirements judged on the first rel/target as a browser reads duplicates, tokens compared ASCII case-insensitively."),
 "C12": e1("DESIGN.md §4 C12", "Five media elements x every attribute list <=4 over crossorigin forms, iframe x every list <=3 over sandbox token sequences, x crossorigin/sandbox admitted per element / through a pattern / globally / not at all x the sandbox list set once or twice x both forcing options together with link options x every sandbox subset of size <=2 plus the full set (thorough: all 16384 subsets)."),
 "C18": e1("DESIGN.md §4 C18", "For each of the 213 default handlers: every pool token it accepts and every accepted 2-3 token combination, with each of 23 hostile fragments (incl. url() arguments that merely begin with http, and hostile constructs wrapped in calc() / var() / min()) inserted at every byte position, glued at both ends and substituted; the handler must reject all (~16M handler calls), the unknown-property handler rejects the pool and ~60 near-miss names per known property reject that property's values, and Sanitize end to end removes a per-position subset.",
          "Trusted: the harness's hostile-construct scanner and CSS escape decoder. Vocabulary pool is extracted from css/handlers.go's string literals at check time plus a fixed list of numeric/functional forms."),
 "C19": e1("DESIGN.md §4 C19", "Per exported matcher: all strings up to length 4-6 over its own alphabet plus 17 HTML-significant characters, all strings <=3 over that alphabet widened by 19 regular-expression metacharacters, all splices of two documented examples, and all single and double edits of every documented example (63M strings in quick); a match must be accepted by a hand-written recogniser of the documented form, and every documented example must match.",
          "Trusted: the recognisers in internal/checks/c19.go."),
 "C08": ("model_checking", "explicit-state breadth-first search over states of the real token loop (loop locals read through a build overlay + input element stack), transitions = tokens of a well-nested grammar, per-transition oracle", "E2", "DESIGN.md §4 C08",
         "Reachability closure of the real sanitiser's token-loop state under 17 policies for every well-nested document over a grammar of 18 open/close forms and 9-20 leaves with nesting depth <=3 (thorough 4) and any length (0.5M states, 8M transitions in quick): text inside a disallowed skip-content element never appears, markup inside it produces no output, text outside appears once and unchanged (a void element of the skip set included), and a complete skipped element leaves no trace (if the loop state differs from the state before it, every continuation <X>text</X> and every leaf must behave as without it).",
         "Trusted: the overlay instrumenter (harness/cmd/instrument) locating the token loop and dumping its locals; state equality (same locals + same open-element stack => same future) holds because the loop's future depends on nothing else except the immutable policy. If the loop cannot be located the check degrades to bounded enumeration and says exhaustive:false."),
 "C09": ("model_checking", "explicit-state breadth-first search over states of the real token loop (same search as C08), stack-balance monitor on the re-tokenised output in every state", "E2", "DESIGN.md §4 C09",
         "Same state space as C08 (the visited-state key includes the output's open-element stack, which the balance oracle depends on); in every reached state the re-tokenised output never closes an element that is not the innermost open one, never has more open elements than the input, and is fully closed whenever the input document is complete. The whole policy family is built in every shard before the search (constructing one policy must not change another). A two-call layer adds: after the same policy sanitised any fragment sequence of length <=3, six well-nested documents still come out balanced.",
         "As C08. Void elements per the HTML list; self-closing tokens are leaves."),
 "C13": ("model_checking", "stateless model checking under a cooperative scheduler with iterative preemption bounding + exhaustive map-iteration-order choices; separate free-running race-detector pass", "E3", "DESIGN.md §4 C13",
         "All interleavings with <=2 preemptions of two goroutines sanitising on one shared policy (scheduling point before every statement of the package), all map-range orders within 2 deviations from sorted order, alone and combined with a preemption (0.5M executions in quick); every call must return the sequential result and sanitising must not change later behaviour (deep snapshot of the policy and of all package-level variables; on a difference the used policy is compared with a fresh one on probes; other policies must be unaffected by calls on this one). Sequential histories: on 13 policies, for all ordered pairs (x, y) of 119 inputs, y after x on one fresh instance equals the result of the first and only call of a fresh process. The streaming entry point is explored into a destination whose Write is a scheduling point. The data-race clause is decided by Go's race detector on a free-running build of the same bodies.",
         "Trusted: the overlay (scheduling points, map-range rewriting, reflective snapshot); sequentially consistent interleaving at statement granularity; the race detector for unsynchronised accesses (outside the model-checking family, stated in DESIGN.md)."),
 "C14": ("model_checking", "bounded-exhaustive enumeration for absence of panics on all four entry points + step-bounded execution (overlay step counter, cubic budget) of size-parameterised input families", "E5", "DESIGN.md §4 C14",
         "Every byte string <=4 over 22 bytes, every fragment sequence <=2 every sequence of 3-4 tokens over a 23-token token-loop alphabet and every data: URI of <=3 fragments through all four entry points; every prefix / suffix of every accepted CSS token and every prefix of every function-notation token under the step budget; on an everything-on policy (also with URL parsing switched off again), a rewriter-only policy and UGC; every default CSS handler x its own vocabulary x separators x terminators x sizes up to 48 components and 35 HTML families up to n=256 executed under a budget of 16*(len+16)^3 instrumented steps. No wall-clock oracle.",
         "Trusted: step counting by the overlay (statements of bluemonday, function entries and loop iterations of css); work inside regexp / douceur / x/net/html is not counted. Polynomial bound established for the listed sizes, not asymptotically."),
 "C15": ("fault_enumeration", "exhaustive enumeration of reader chunkings (all subsets of split points for short inputs), zero-length reads, EOF-with-data, writer kinds; differential oracle across the four entry points and the built cmd tools", "E4", "DESIGN.md §4 C15",
         "58M environment runs in quick: every input of <=2 fragments (and a core of 3) under every chunking (2^(n-1) for n<=8, <=2 split points beyond) x zero-length reads x EOF delivered with data x both writer kinds must give exactly Sanitize's bytes; blank inputs and the caller's buffer are checked; results already returned are re-read after the policy sanitised a different document; both cmd binaries are built from /repo and compared with the library on 1.6k stdin documents and on 64 KiB, 1 MiB + 1 and 3 MiB of stdin.",
         "Trusted: the harness reader/writer doubles; the harness's reconstruction of the two documented cmd policies."),
 "C16": ("fault_enumeration", "exhaustive fault injection at the io.Reader / io.Writer seam: every write index x 3 fault kinds x 2 writer kinds, every read offset x 6 error kinds", "E4", "DESIGN.md §4 C16",
         "For every input of <=2 fragments (core of 3) and 7 policies, the fault-free write sequence is recorded and every single write is failed (transient, permanent, partial) for both writer kinds; the reader is failed at every byte offset with six error values, into a bytes.Buffer and into a *bufio.Writer; returned buffers are written into, as a caller may. Error must be returned, no write may follow the failure, accepted bytes must be a prefix of the fault-free output, SanitizeReader must return an empty buffer.",
         "Trusted: the fault-injecting doubles. Faults are injected only through the exported API."),
 "C17": ("model_checking", "explicit-state search over builder-call histories with an abstract rule-set state (reference model) and conformance of every history against the implementation by probe-output vectors", "E6", "DESIGN.md §4 C17",
         "Every history of <=3 calls (thorough: also length 4 over the first 44 calls) over a 79-call alphabet (every upper-case spelling has its lower-case twin; 493k histories, 17.9k abstract states), every history of <=2 calls that uses one of 24 helper / rarely used calls, every history of <=3 calls over 17 calls on a zero-value Policy{}, and every history of <=2 calls (<=3 over the option calls) started from a links-enabled non-initial state, is executed on a fresh real policy by exactly one shard; the parent groups the records of all shards by abstract state; all histories reaching one abstract state must agree byte for byte on 46 probe documents; an additive call never removes a kept tag or attribute; using a policy between two builder calls (from the initial state, a links-enabled state and UGCPolicy) leaves it what a fresh policy given the same calls is; a policy that sanitised the probes eight times over answers each probe as a fresh policy's first call does. Instances: in a pristine process, after each call on a scratch instance a fresh and an earlier instance must be unaffected (3 bases), plus interleaved construction of two instances.",
         "Trusted: the reference model (internal/spec ViewOf + Canon); probe documents distinguish the behaviours of interest."),
 "C20": e1("DESIGN.md §4 C20", "Fragment sequences (<=3 over F, <=4 core, <=3 over core + exotic syntax), URL strings in three positions (<=3 fragments, and <=3 tail fragments after five well-formed prefixes), link attribute lists <=3 (<=2 under every combination of the five link options x rel / target admission), against every policy of the family inside the property's class plus Strict and UGC (with the del/ins proviso): Sanitize(Sanitize(x)) == Sanitize(x). Style declarations (<=2 over C10's alphabet) under every in-class style rule set and a permissive value pattern. Two known findings (rel/target order, two mirror-image policy shapes) are listed in known_findings.jsonl."),
}

# additions after rounds 7 and 8 of the seeded-change work (appended to the texts above)
ADD = {
 "C01": " Comment bodies with entity-encoded terminators and raw-text elements holding an unfinished comment are in the fragment alphabets.",
 "C03": " Two policies whose scheme pattern also matches the empty string (relative URLs not allowed) are in the family.",
 "C04": " Hostile data: URIs wrapped with line feeds are among the XSS fragments; relative URLs with a colon in the path among the conforming ones.",
 "C05": " Depth layer (15 ... 4096 open attribute-less elements before the script), size layer (bodies of 64 KiB ... 3 MiB), attribute-count layer, and comment bodies with entity-encoded terminators under comment-allowing policies.",
 "C07": " Under AllowUnsafe with script / style allowed, bodies containing > < & \" ' must come back unchanged.",
 "C08": " Depth probes: 4 ... 65537 nested skip-content elements with a marker between the closers must leave exactly the content that follows.",
 "C09": " A raw-text layer puts every removed raw-text element around tag-shaped text inside and next to kept elements.",
 "C10": " Interleaved bracket kinds, strings containing their own quote escaped, escapes of white space at the ends of a value, and a handler that accepts everything except url( / expression( are in the alphabet / family; the harness splits declarations with a stack of expected closers.",
 "C11": " With exactly one href and at most one target, a rel token that neither the input carried nor an option in force requires for that link is a violation too; slash-less special-scheme hrefs (https:e.x, ftp:e.x) count as having a host, as for a browser.",
 "C13": " Further explorations: two short documents whose elements are removed for lack of attributes at <=2 preemptions; map ranges with more than four keys in sorted and reverse order on a probe with stacked vendor prefixes; the streaming entry point into a destination whose Write is a scheduling point. Quick explores <=2 preemptions on one document pair and the short pair, <=1 on the other five pairs; thorough all.",
 "C15": " A seekable reader from which a prefix was already read must yield the result for the remaining suffix.",
 "C18": " Glue between accepted value and hostile fragment: nothing, space, doubled space, tab, line feed, comma, comma + space, slash, spaced slash, semicolon.",
 "C20": " A policy admitting ftp / tel by scheme pattern only is in the URL layers (ten prefixes incl. ftp://e.x/ and tel:1; %26 among the tails).",
}
for k, v in ADD.items():
    t = list(CHECKS[k]); t[4] = t[4] + v; CHECKS[k] = tuple(t)
ADD8 = {
 "C02": " data-* names are judged by HTML's definition of a custom data attribute (XML NameChar ranges, no colon, no upper case, valid UTF-8), not by the code's; a builder call OnElements() with no element is in the rare-forms policy.",
 "C03": " A surviving http / https / ftp / ws / wss URL must have // and a host (without them a browser reads it as absolute or as page-relative depending on the page, so nothing has judged what it will use); a deny-list custom check is in the family.",
 "C05": " Second oracle: an independent transcription of the HTML standard's script-data states (escaped / double-escaped) delimits the script element when it is the document's first tag; script bodies <=4 (thorough 6) over 14 fragments that move between those states. Third known finding: x/net's tokenizer leaves the escaped state too early. Third oracle: the input parsed with scripting disabled (noscript content is markup then); fourth known finding: script/style text inside a kept noscript comes out escaped.",
 "C07": " A policy whose pattern-bound enum / handler style rules accept values no default handler accepts and one whose rules are registered under vendor-prefixed names are in the family; conforming declarations are also written with !important.",
 "C10": " The browser-model splitter knows unquoted url tokens (a bad url ends at the first ')'); case folding in the oracle is ASCII-only; an accept-all handler and matchers for words with k / s are in the family; every sequence <=2 of clean declarations is also written with CSS white space before it and after its final ';' (a style attribute on several lines); the splitter also knows CDO, hash tokens and at-keywords before a parenthesis; clean declarations with !important are in the alphabet (the oracle takes the flag off before judging the value).",
 "C11": " target values are compared with _blank ASCII case-insensitively, as a browser does (target=_BLANK is in the alphabet, as is href=https:/e.x/p).",
 "C12": " A zero-value Policy{} with both forcing options set before the first initialising call is in the family.",
 "C14": " The streaming entry point is driven into a bytes.Buffer and into a destination without WriteString.",
 "C18": " End to end each hostile fragment is also tried alone, glued with a space on either side of a good value and between two comments; url tokens are delimited in the text as written, so that an escaped quote at the start of a url (url(\\22http://../x)) counts as part of the URL.",
}
for k, v in ADD8.items():
    t = list(CHECKS[k]); t[4] = t[4] + v; CHECKS[k] = tuple(t)
ADD10 = {
 "C07": " A vendor-prefixed rule and a plain rule for the same property in one table: declarations under the prefixed name are also witnessed with the values only the plain rule accepts.",
 "C08": " Default-table layer: each of the ten element names the statement lists as skipped by default (written out in the check) is tried alone, inside a kept element and after another skipped element, with text and markup inside, under three policies that rely on the default table.",
 "C11": " Six option masks with RequireParseableURLs(false) set after the link options, so that hrefs net/url refuses but a browser follows reach the hardening pass; 'has a host' strips leading and trailing C0 / space and tab / newline first, as a browser does.",
 "C13": " Enum entries of the shared policy are spelled in mixed case; in the free-running race pass the shared policy meets its first calls concurrently (the sequential references come from a second object) and one in four calls is SanitizeReaderToWriter into a destination that offers only Write.",
 "C14": " Every style value of <=4 (thorough 5) bytes over the 16 bytes the style scanner's branches distinguish, as a value and as a property name.",
 "C15": " Single tokens of 511 ... 200000 bytes (text, attribute value, comment), whole and split in the middle, into both kinds of destination.",
 "C16": " A policy that removes script / style but writes their text back escaped (AllowUnsafe + AllowElementsContent) is in the family.",
 "C20": " Policies with AllowUnsafe that allow neither script nor style are in the class.",
}
for k, v in ADD10.items():
    t = list(CHECKS[k]); t[4] = t[4] + v; CHECKS[k] = tuple(t)

built = [i for i in ids if i in CHECKS and os.environ.get("ONLY", i) ]
checks = []
for i in ids:
    if i not in CHECKS: continue
    level, tech, eng, ref, text, note = CHECKS[i]
    checks.append({
        "property_id": i,
        "quick_cmd": f"bin/check {i} quick",
        "thorough_cmd": f"bin/check {i} thorough",
        "evidence_file": f"/verif/evidence/{i}.json",
        "replay_cmd_template": "bin/check replay {path}",
        "engine": eng,
        "level_claimed": {"category": level, "text": text, "design_ref": ref},
        "level_note": note,
        "technique": tech,
    })
na = [{"property_id": i, "reason": "no check at this revision"} for i in ids if i not in CHECKS]
m = {
 "version": 1,
 "setup_cmd": "bin/setup",
 "hooks": {
   "guard": "verif",
   "enable": "no hooks are committed in /repo: instrumentation is generated from /repo's working tree at check time by harness/cmd/instrument and applied with `go build -tags verif -overlay`",
   "baseline_off_cmd": "cd /repo && GOFLAGS=-mod=mod GOPROXY=off GOSUMDB=off GOTOOLCHAIN=local go test -json -vet=off -count=1 -timeout 25m ./...",
   "source_commits": [],
   "add_only": True,
 },
 "engines": [
   {"name": "E1", "path": "harness/internal/checks", "serves_properties": [i for i in ids if i in CHECKS and CHECKS[i][2]=="E1"], "kind_free_text": "stateless bounded-exhaustive sequence enumerator over fragment/byte alphabets x policy family, sharded by input hash over 16 worker processes"},
   {"name": "E2", "path": "harness/internal/checks/e2.go", "serves_properties": ["C08", "C09"], "kind_free_text": "explicit-state BFS over the real token loop's states (overlay hook dumps loop locals), successors by re-running the real Sanitize on path+token"},
   {"name": "E3", "path": "harness/internal/checks/e3.go", "serves_properties": ["C13"], "kind_free_text": "cooperative scheduler + preemption-bounded DFS over interleavings and map-iteration orders of the instrumented implementation; free-running -race pass"},
   {"name": "E4", "path": "harness/internal/checks/e4.go", "serves_properties": ["C15", "C16"], "kind_free_text": "environment and fault enumerator at the io.Reader / io.Writer seam"},
   {"name": "E5", "path": "harness/internal/checks/c14.go", "serves_properties": ["C14"], "kind_free_text": "step-bounded execution with an overlay step counter"},
   {"name": "E6", "path": "harness/internal/checks/c17.go", "serves_properties": ["C17"], "kind_free_text": "builder-history explorer with abstract rule-set states and conformance replay"},
   {"name": "instrument", "path": "harness/cmd/instrument", "serves_properties": ["C08", "C09", "C13", "C14"], "kind_free_text": "AST rewriter (go/parser + go/types) generating a go build -overlay from /repo's working tree: VerifPoint before every statement, token-loop state hook, map-range order hook, reflective snapshot"},
 ],
 "checks": checks,
 "not_applicable": na,
 "notes": "All checks rebuild the harness against /repo's current working tree (go build with replace => /repo). Known findings: /verif/known_findings.jsonl.",
}
json.dump(m, open(os.path.join(V, "MANIFEST.json"), "w"), indent=1)
print("wrote MANIFEST.json with", len(checks), "checks,", len(na), "not_applicable")
