#!/bin/bash
# usage: tools/round_eval.sh <round root> <ID> [extra check ids...]
# Evaluates <root>/<ID>/seed/a with tools/seedtest.sh against the property's own check (and any extra ones).
R=$1; ID=$2; shift 2
SD=$R/$ID/seed/a
[ -f "$SD/patch.diff" ] || { echo "EVAL $ID: no patch.diff"; exit 2; }
/verif/tools/seedtest.sh "$SD" $ID "$@" 2>&1 | tee "$R/eval_$ID.txt"
