#!/usr/bin/env python3
"""usage: saveseed.py <src_dir> <name> <property> <caught_by> <needs...>
Copies a confirmed property-breaking change into /verif/seeded/<name>/ with meta.json."""
import sys, os, shutil, json, subprocess
src, name, prop, caught = sys.argv[1:5]
needs = " ".join(sys.argv[5:])
dst = f"/verif/seeded/{name}"
os.makedirs(dst, exist_ok=True)
for f in ("patch.diff", "demo_test.go", "notes.md"):
    if os.path.exists(os.path.join(src, f)):
        shutil.copy(os.path.join(src, f), os.path.join(dst, f if f != "demo_test.go" else "demo_test.go.txt"))
head = subprocess.run(["git", "-C", "/repo", "rev-parse", "--short", "HEAD"], capture_output=True, text=True).stdout.strip()
meta = {
  "property": prop,
  "origin": "written by an independent sub-agent that saw only the property text and a scratch worktree of /repo",
  "needs_to_manifest": needs,
  "confirmed_by_me": f"tools/seedtest.sh: demo passes on the unchanged tree, patch applies at /repo {head}, repository suite passes with the patch, demo fails with the patch",
  "caught_by": caught.split(","),
  "how_to_run": "git -C /repo apply seeded/%s/patch.diff && bin/check <ID> quick ; git -C /repo checkout -- ." % name,
  "demo": "demo_test.go.txt (copy to /repo/zz_seed_demo_test.go, go test -run TestSeedDemo .)",
}
json.dump(meta, open(os.path.join(dst, "meta.json"), "w"), indent=1)
print("saved", dst)
