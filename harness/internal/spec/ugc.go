package spec

import (
	"encoding/base64"
	"net/url"
	"regexp"
)

// The documented UGC vocabulary, transcribed from the comments in policies.go /
// helpers.go and the README as a list of primitive calls. This is the harness's
// own statement of what UGCPolicy means; the real policy is always obtained from
// bluemonday.UGCPolicy().

func on(attrs []string, re string, els ...string) Call {
	return Call{Op: "AllowAttrs", Names: attrs, Re: re, Scope: "on", On: els}
}

func tablesCalls() []Call {
	return []Call{
		on([]string{"height", "width"}, "NumberOrPercent", "table"),
		on([]string{"summary"}, "Paragraph", "table"),
		{Op: "AllowElements", Names: []string{"caption"}},
		on([]string{"align"}, "CellAlign", "col", "colgroup"),
		on([]string{"height", "width"}, "NumberOrPercent", "col", "colgroup"),
		on([]string{"span"}, "Integer", "colgroup", "col"),
		on([]string{"valign"}, "CellVerticalAlign", "col", "colgroup"),
		on([]string{"align"}, "CellAlign", "thead", "tr"),
		on([]string{"valign"}, "CellVerticalAlign", "thead", "tr"),
		on([]string{"abbr"}, "Paragraph", "td", "th"),
		on([]string{"align"}, "CellAlign", "td", "th"),
		on([]string{"colspan", "rowspan"}, "Integer", "td", "th"),
		on([]string{"headers"}, "SpaceSeparatedTokens", "td", "th"),
		on([]string{"height", "width"}, "NumberOrPercent", "td", "th"),
		on([]string{"scope"}, `(?i)(?:row|col)(?:group)?`, "td", "th"),
		on([]string{"valign"}, "CellVerticalAlign", "td", "th"),
		on([]string{"nowrap"}, `(?i)|nowrap`, "td", "th"),
		on([]string{"align"}, "CellAlign", "tbody", "tfoot"),
		on([]string{"valign"}, "CellVerticalAlign", "tbody", "tfoot"),
	}
}

// UGCCalls is the documented composition of UGCPolicy.
func UGCCalls() []Call {
	cs := []Call{
		{Op: "AllowStandardAttributes"},
		{Op: "AllowStandardURLs"},
		{Op: "AllowElements", Names: []string{"article", "aside"}},
		on([]string{"open"}, `(?i)^(|open)$`, "details"),
		{Op: "AllowElements", Names: []string{"figure", "section", "summary"}},
		{Op: "AllowElements", Names: []string{"h1", "h2", "h3", "h4", "h5", "h6", "hgroup"}},
		on([]string{"cite"}, "", "blockquote"),
		{Op: "AllowElements", Names: []string{"br", "div", "hr", "p", "span", "wbr"}},
		on([]string{"href"}, "", "a"),
		on([]string{"name"}, `^([\p{L}\p{N}_-]+)$`, "map"),
		on([]string{"alt"}, "Paragraph", "area"),
		on([]string{"coords"}, `^([0-9]+,)+[0-9]+$`, "area"),
		on([]string{"href"}, "", "area"),
		on([]string{"rel"}, "SpaceSeparatedTokens", "area"),
		on([]string{"shape"}, `(?i)^(default|circle|rect|poly)$`, "area"),
		on([]string{"usemap"}, `(?i)^#[\p{L}\p{N}_-]+$`, "img"),
		{Op: "AllowElements", Names: []string{"abbr", "acronym", "cite", "code", "dfn", "em",
			"figcaption", "mark", "s", "samp", "strong", "sub", "sup", "var"}},
		on([]string{"cite"}, "", "q"),
		on([]string{"datetime"}, "ISO8601", "time"),
		{Op: "AllowElements", Names: []string{"b", "i", "pre", "small", "strike", "tt", "u"}},
		on([]string{"dir"}, "Direction", "bdi", "bdo"),
		{Op: "AllowElements", Names: []string{"rp", "rt", "ruby"}},
		on([]string{"cite"}, "Paragraph", "del", "ins"),
		on([]string{"datetime"}, "ISO8601", "del", "ins"),
		{Op: "AllowLists"},
		{Op: "AllowTables"},
		on([]string{"value", "min", "max", "low", "high", "optimum"}, "Number", "meter"),
		on([]string{"value", "max"}, "Number", "progress"),
		{Op: "AllowImages"},
	}
	return cs
}

var dataURIImagePrefix = regexp.MustCompile(`^image/(gif|jpeg|png|svg\+xml|webp);base64,`)

func init() {
	// the harness's copy of the documented data-URI image check
	URLPolicies["data-uri-image"] = func(u *url.URL) bool {
		if u.RawQuery != "" || u.Fragment != "" {
			return false
		}
		m := dataURIImagePrefix.FindString(u.Opaque)
		if m == "" {
			return false
		}
		_, err := base64.StdEncoding.DecodeString(u.Opaque[len(m):])
		return err == nil
	}
}
