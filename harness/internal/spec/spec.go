// Package spec describes a bluemonday policy as data: a list of builder calls.
// The same list is (a) executed against the real exported builder API to obtain
// the *bluemonday.Policy under test and (b) folded into an independent View that
// the oracles consult. The View never looks inside bluemonday.Policy.
package spec

import (
	"encoding/json"
	"fmt"
	"net/url"
	"regexp"
	"sort"
	"strings"
	"sync"

	"github.com/microcosm-cc/bluemonday"
)

// Call is one builder call.
type Call struct {
	// Op is one of:
	//  AllowElements, AllowElementsMatching, AllowAttrs, AllowNoAttrs, AllowStyles,
	//  SkipElementsContent, AllowElementsContent,
	//  AllowURLSchemes, AllowURLSchemeWithCustomPolicy, AllowURLSchemesMatching,
	//  RequireParseableURLs, AllowRelativeURLs, RequireNoFollowOnLinks,
	//  RequireNoFollowOnFullyQualifiedLinks, RequireNoReferrerOnLinks,
	//  RequireNoReferrerOnFullyQualifiedLinks, AddTargetBlankToFullyQualifiedLinks,
	//  RequireCrossOriginAnonymous, RequireSandboxOnIFrame, AddSpaceWhenStrippingTag,
	//  AllowDataAttributes, AllowComments, AllowUnsafe, RewriteSrc,
	//  and the helpers AllowStandardURLs, AllowStandardAttributes, AllowStyling,
	//  AllowImages, AllowDataURIImages, AllowLists, AllowTables, AllowIFrames.
	Op    string   `json:"op"`
	Names []string `json:"names,omitempty"` // elements / schemes / attribute names / property names
	Re    string   `json:"re,omitempty"`    // value pattern (registry name or raw pattern)
	// for AllowAttrs / AllowNoAttrs / AllowStyles
	NoAttrs bool `json:"noattrs,omitempty"` // AllowAttrs(...).AllowNoAttrs()
	// NoAttrsFirst: chain as AllowAttrs(...).AllowNoAttrs().Matching(re) instead of .Matching(re).AllowNoAttrs()
	NoAttrsFirst bool     `json:"noattrs_first,omitempty"`
	Scope        string   `json:"scope,omitempty"` // on | matching | global
	On           []string `json:"on,omitempty"`
	OnRe         string   `json:"onre,omitempty"`
	Enum         []string `json:"enum,omitempty"`
	Handler      string   `json:"handler,omitempty"` // registry name of a style handler
	Bool         bool     `json:"bool,omitempty"`
	Ints         []int    `json:"ints,omitempty"` // sandbox values
	Fn           string   `json:"fn,omitempty"`   // registry name of URL policy / rewriter
	// FreshRe forces a newly compiled *regexp.Regexp (instead of the cached one)
	// for OnRe / AllowElementsMatching, to exercise pointer-keyed tables.
	FreshRe bool `json:"freshre,omitempty"`
}

// Spec is a named policy description.
type Spec struct {
	Name  string `json:"name"`
	Base  string `json:"base"` // new | ugc | strict | literal (Policy{} zero value)
	Calls []Call `json:"calls"`
}

func (s Spec) String() string {
	b, _ := json.Marshal(s)
	return string(b)
}

// ---- registries -----------------------------------------------------------

var (
	reMu    sync.Mutex
	reCache = map[string]*regexp.Regexp{}
)

// named value patterns exported by bluemonday
var namedRe = map[string]*regexp.Regexp{
	"CellAlign":            bluemonday.CellAlign,
	"CellVerticalAlign":    bluemonday.CellVerticalAlign,
	"Direction":            bluemonday.Direction,
	"ImageAlign":           bluemonday.ImageAlign,
	"Integer":              bluemonday.Integer,
	"ISO8601":              bluemonday.ISO8601,
	"ListType":             bluemonday.ListType,
	"SpaceSeparatedTokens": bluemonday.SpaceSeparatedTokens,
	"Number":               bluemonday.Number,
	"NumberOrPercent":      bluemonday.NumberOrPercent,
	"Paragraph":            bluemonday.Paragraph,
}

// Regexp returns the compiled pattern for a registry key. Named keys map to
// bluemonday's exported matchers; anything else is compiled (and cached so the
// same key gives the same pointer).
func Regexp(key string) *regexp.Regexp {
	if key == "" {
		return nil
	}
	if r, ok := namedRe[key]; ok {
		return r
	}
	reMu.Lock()
	defer reMu.Unlock()
	if r, ok := reCache[key]; ok {
		return r
	}
	r := regexp.MustCompile(key)
	reCache[key] = r
	return r
}

// URLPolicies is the registry of custom URL checks (pure functions).
var URLPolicies = map[string]func(*url.URL) bool{
	"host-example.org":  func(u *url.URL) bool { return u.Host == "example.org" },
	"host-example2.org": func(u *url.URL) bool { return u.Host == "example2.org" },
	"host-not-e.x":      func(u *url.URL) bool { return u.Hostname() != "e.x" }, // a deny list
	"no-query":          func(u *url.URL) bool { return u.RawQuery == "" },
	"never":             func(u *url.URL) bool { return false },
	"always":            func(u *url.URL) bool { return true },
	"nil":               nil, // a nil callback: the builder accepts it (used by C14 only, never evaluated by a view)
}

// Rewriters is the registry of src rewriters. Each dereferences its argument.
var Rewriters = map[string]func(*url.URL){
	"proxy": func(u *url.URL) {
		orig := u.String()
		u.Scheme = "https"
		u.Host = "proxy.invalid"
		u.Opaque = ""
		u.User = nil
		u.Path = "/p"
		u.RawPath = ""
		u.RawQuery = "u=" + url.QueryEscape(orig)
		u.Fragment = ""
		u.RawFragment = ""
	},
}

// StyleHandlers is the registry of custom style handlers.
var StyleHandlers = map[string]func(string) bool{
	"is-red":     func(v string) bool { return v == "red" },
	"is-green":   func(v string) bool { return v == "green" },
	"short":      func(v string) bool { return len(v) <= 3 },
	"always":     func(v string) bool { return true },
	"never":      func(v string) bool { return false },
	"no-url":     func(v string) bool { return !strings.Contains(v, "url(") && !strings.Contains(v, "expression(") },
	"alpha-only": func(v string) bool { return v != "" && strings.Trim(v, "abcdefghijklmnopqrstuvwxyz") == "" },
}

// ---- building the real policy ----------------------------------------------

func freshOrCached(key string, fresh bool) *regexp.Regexp {
	if fresh {
		if r, ok := namedRe[key]; ok {
			return regexp.MustCompile(r.String())
		}
		return regexp.MustCompile(key)
	}
	return Regexp(key)
}

// Build constructs the real policy through the exported API only.
func Build(s Spec) *bluemonday.Policy {
	var p *bluemonday.Policy
	switch s.Base {
	case "", "new":
		p = bluemonday.NewPolicy()
	case "ugc":
		p = bluemonday.UGCPolicy()
	case "strict":
		p = bluemonday.StrictPolicy()
	case "striptags":
		p = bluemonday.StripTagsPolicy() // deprecated alias of StrictPolicy
	case "literal":
		p = &bluemonday.Policy{}
	default:
		panic("spec: unknown base " + s.Base)
	}
	for _, c := range s.Calls {
		Apply(p, c)
	}
	return p
}

// Apply performs one builder call on p.
func Apply(p *bluemonday.Policy, c Call) {
	switch c.Op {
	case "AllowElements":
		p.AllowElements(c.Names...)
	case "AllowElementsMatching":
		p.AllowElementsMatching(freshOrCached(c.Re, c.FreshRe))
	case "AllowAttrs", "AllowNoAttrs":
		var b interface {
			OnElements(...string) *bluemonday.Policy
			OnElementsMatching(*regexp.Regexp) *bluemonday.Policy
			Globally() *bluemonday.Policy
		}
		if c.Op == "AllowNoAttrs" {
			nb := p.AllowNoAttrs()
			if c.Re != "" {
				nb = nb.Matching(Regexp(c.Re)) // no attribute names: the value pattern has nothing to apply to
			}
			b = nb
		} else {
			ab := p.AllowAttrs(c.Names...)
			if c.NoAttrs && c.NoAttrsFirst {
				ab = ab.AllowNoAttrs()
			}
			if c.Re != "" {
				ab = ab.Matching(Regexp(c.Re))
			}
			if c.NoAttrs && !c.NoAttrsFirst {
				ab = ab.AllowNoAttrs()
			}
			b = ab
		}
		switch c.Scope {
		case "on":
			b.OnElements(c.On...)
		case "matching":
			b.OnElementsMatching(freshOrCached(c.OnRe, c.FreshRe))
		case "global":
			b.Globally()
		default:
			panic("spec: bad scope " + c.Scope)
		}
	case "AllowStyles":
		sb := p.AllowStyles(c.Names...)
		if c.Handler != "" {
			h, ok := StyleHandlers[c.Handler]
			if !ok {
				panic("spec: unknown handler " + c.Handler)
			}
			sb = sb.MatchingHandler(h)
		}
		if len(c.Enum) > 0 {
			sb = sb.MatchingEnum(c.Enum...)
		}
		if c.Re != "" {
			sb = sb.Matching(Regexp(c.Re))
		}
		switch c.Scope {
		case "on":
			sb.OnElements(c.On...)
		case "matching":
			sb.OnElementsMatching(freshOrCached(c.OnRe, c.FreshRe))
		case "global":
			sb.Globally()
		default:
			panic("spec: bad scope " + c.Scope)
		}
	case "SkipElementsContent":
		p.SkipElementsContent(c.Names...)
	case "AllowElementsContent":
		p.AllowElementsContent(c.Names...)
	case "AllowURLSchemes":
		p.AllowURLSchemes(c.Names...)
	case "AllowURLSchemeWithCustomPolicy":
		fn, ok := URLPolicies[c.Fn]
		if !ok {
			panic("spec: unknown url policy " + c.Fn)
		}
		p.AllowURLSchemeWithCustomPolicy(c.Names[0], fn)
	case "AllowURLSchemesMatching":
		p.AllowURLSchemesMatching(Regexp(c.Re))
	case "RequireParseableURLs":
		p.RequireParseableURLs(c.Bool)
	case "AllowRelativeURLs":
		p.AllowRelativeURLs(c.Bool)
	case "RequireNoFollowOnLinks":
		p.RequireNoFollowOnLinks(c.Bool)
	case "RequireNoFollowOnFullyQualifiedLinks":
		p.RequireNoFollowOnFullyQualifiedLinks(c.Bool)
	case "RequireNoReferrerOnLinks":
		p.RequireNoReferrerOnLinks(c.Bool)
	case "RequireNoReferrerOnFullyQualifiedLinks":
		p.RequireNoReferrerOnFullyQualifiedLinks(c.Bool)
	case "AddTargetBlankToFullyQualifiedLinks":
		p.AddTargetBlankToFullyQualifiedLinks(c.Bool)
	case "RequireCrossOriginAnonymous":
		p.RequireCrossOriginAnonymous(c.Bool)
	case "RequireSandboxOnIFrame":
		vals := make([]bluemonday.SandboxValue, len(c.Ints))
		for i, v := range c.Ints {
			vals[i] = bluemonday.SandboxValue(v)
		}
		p.RequireSandboxOnIFrame(vals...)
	case "AllowIFrames":
		vals := make([]bluemonday.SandboxValue, len(c.Ints))
		for i, v := range c.Ints {
			vals[i] = bluemonday.SandboxValue(v)
		}
		p.AllowIFrames(vals...)
	case "AddSpaceWhenStrippingTag":
		p.AddSpaceWhenStrippingTag(c.Bool)
	case "AllowDataAttributes":
		p.AllowDataAttributes()
	case "AllowComments":
		p.AllowComments()
	case "AllowUnsafe":
		p.AllowUnsafe(c.Bool)
	case "RewriteSrc":
		fn, ok := Rewriters[c.Fn]
		if !ok {
			panic("spec: unknown rewriter " + c.Fn)
		}
		p.RewriteSrc(fn)
	case "AllowStandardURLs":
		p.AllowStandardURLs()
	case "AllowStandardAttributes":
		p.AllowStandardAttributes()
	case "AllowStyling":
		p.AllowStyling()
	case "AllowImages":
		p.AllowImages()
	case "AllowDataURIImages":
		p.AllowDataURIImages()
	case "AllowLists":
		p.AllowLists()
	case "AllowTables":
		p.AllowTables()
	default:
		panic("spec: unknown op " + c.Op)
	}
}

// ---- the independent view ---------------------------------------------------

// AttrRule is one value rule for an attribute: Re == nil means unconditional.
type AttrRule struct{ Re *regexp.Regexp }

// StyleRule mirrors the documented precedence of the style builder: handler,
// else enum, else regexp, else the default handler for the property.
type StyleRule struct {
	Key     string // canonical description of the matcher (for abstract-state keys)
	Handler func(string) bool
	Enum    []string
	Re      *regexp.Regexp
	Default string // property name whose default handler applies
}

type patAttrs struct {
	Re    *regexp.Regexp
	Attrs map[string][]AttrRule
}
type patStyles struct {
	Re     *regexp.Regexp
	Styles map[string][]StyleRule
}

// View is what the documentation says a policy built from the calls means.
type View struct {
	Elements  map[string]bool
	ElemRes   []*regexp.Regexp
	ElemAttr  map[string]map[string][]AttrRule
	PatAttr   []patAttrs
	Global    map[string][]AttrRule
	Bare      map[string]bool
	BareRes   []*regexp.Regexp
	Skip      map[string]bool
	ElemStyle map[string]map[string][]StyleRule
	PatStyle  []patStyles
	GlobStyle map[string][]StyleRule

	AddSpaces, NoFollow, NoFollowFQ, NoReferrer, NoReferrerFQ, TargetBlank bool
	ParseableURLs, RelativeURLs, DataAttrs, Comments, CrossOrigin, Unsafe  bool
	Sandbox                                                                map[string]bool // nil = option off
	Schemes                                                                map[string][]string
	SchemeRes                                                              []*regexp.Regexp
	Rewriter                                                               string
	ValueREOn                                                              map[string]bool // attribute names that carry at least one value pattern anywhere
	HasPattern                                                             bool
}

var defaultBare = strings.Fields(`abbr acronym address article aside audio b bdi blockquote body br button
 canvas caption center cite code col colgroup datalist dd del details dfn div dl dt em fieldset figcaption
 figure footer h1 h2 h3 h4 h5 h6 head header hgroup hr html i ins kbd li mark marquee nav ol optgroup option
 p picture pre q rp rt ruby s samp script section select small span strike strong style sub summary sup svg
 table tbody td textarea tfoot th thead title time tr tt u ul var video wbr`)

var defaultSkip = strings.Fields(`frame frameset iframe noembed noframes noscript nostyle object script style title`)

// SandboxNames lists the fourteen sandbox tokens in SandboxValue order.
var SandboxNames = []string{
	"allow-downloads", "allow-downloads-without-user-activation", "allow-forms", "allow-modals",
	"allow-orientation-lock", "allow-pointer-lock", "allow-popups", "allow-popups-to-escape-sandbox",
	"allow-presentation", "allow-same-origin", "allow-scripts", "allow-storage-access-by-user-activation",
	"allow-top-navigation", "allow-top-navigation-by-user-activation",
}

func newView() *View {
	v := &View{
		Elements:  map[string]bool{},
		ElemAttr:  map[string]map[string][]AttrRule{},
		Global:    map[string][]AttrRule{},
		Bare:      map[string]bool{},
		Skip:      map[string]bool{},
		ElemStyle: map[string]map[string][]StyleRule{},
		GlobStyle: map[string][]StyleRule{},
		Schemes:   map[string][]string{},
		ValueREOn: map[string]bool{},
	}
	return v
}

// ViewOf folds the calls of s (after the base's own documented calls) into a View.
func ViewOf(s Spec) *View {
	v := newView()
	if s.Base != "literal" {
		for _, e := range defaultBare {
			v.Bare[e] = true
		}
		for _, e := range defaultSkip {
			v.Skip[e] = true
		}
	}
	if s.Base == "ugc" {
		for _, c := range UGCCalls() {
			v.apply(c)
		}
	}
	for _, c := range s.Calls {
		v.apply(c)
	}
	return v
}

func lowerAll(xs []string) []string {
	out := make([]string, len(xs))
	for i, x := range xs {
		out[i] = strings.ToLower(x)
	}
	return out
}

func (v *View) patAttr(re *regexp.Regexp) *patAttrs {
	for i := range v.PatAttr {
		if v.PatAttr[i].Re == re {
			return &v.PatAttr[i]
		}
	}
	v.PatAttr = append(v.PatAttr, patAttrs{Re: re, Attrs: map[string][]AttrRule{}})
	v.ElemRes = append(v.ElemRes, re)
	v.HasPattern = true
	return &v.PatAttr[len(v.PatAttr)-1]
}

func (v *View) apply(c Call) {
	switch c.Op {
	case "AllowElements":
		for _, e := range lowerAll(c.Names) {
			v.Elements[e] = true
		}
	case "AllowElementsMatching":
		v.patAttr(Regexp(c.Re))
	case "AllowAttrs", "AllowNoAttrs":
		names := lowerAll(c.Names)
		if c.Op == "AllowNoAttrs" {
			names = nil
		}
		bare := c.NoAttrs || c.Op == "AllowNoAttrs"
		rule := AttrRule{Re: Regexp(c.Re)}
		if c.Re != "" {
			for _, n := range names {
				v.ValueREOn[n] = true
			}
		}
		switch c.Scope {
		case "on":
			for _, e := range lowerAll(c.On) {
				if len(names) > 0 || bare {
					v.Elements[e] = true
				}
				for _, n := range names {
					if v.ElemAttr[e] == nil {
						v.ElemAttr[e] = map[string][]AttrRule{}
					}
					v.ElemAttr[e][n] = append(v.ElemAttr[e][n], rule)
				}
				if bare {
					v.Bare[e] = true
				}
			}
		case "matching":
			re := Regexp(c.OnRe)
			if len(names) > 0 || bare {
				pa := v.patAttr(re)
				for _, n := range names {
					pa.Attrs[n] = append(pa.Attrs[n], rule)
				}
			}
			if bare {
				v.BareRes = append(v.BareRes, re)
			}
		case "global":
			for _, n := range names {
				v.Global[n] = append(v.Global[n], rule)
			}
		}
	case "AllowStyles":
		props := lowerAll(c.Names)
		mk := func(prop string) StyleRule {
			switch {
			case c.Handler != "":
				return StyleRule{Key: "h:" + c.Handler, Handler: StyleHandlers[c.Handler]}
			case len(c.Enum) > 0:
				e := lowerAll(c.Enum)
				sort.Strings(e)
				return StyleRule{Key: "e:" + strings.Join(e, ","), Enum: c.Enum}
			case c.Re != "":
				return StyleRule{Key: "r:" + c.Re, Re: Regexp(c.Re)}
			}
			return StyleRule{Key: "d:" + prop, Default: prop}
		}
		switch c.Scope {
		case "on":
			for _, e := range lowerAll(c.On) {
				if v.ElemStyle[e] == nil {
					v.ElemStyle[e] = map[string][]StyleRule{}
				}
				for _, pr := range props {
					v.ElemStyle[e][pr] = append(v.ElemStyle[e][pr], mk(pr))
				}
			}
		case "matching":
			re := Regexp(c.OnRe)
			var ps *patStyles
			for i := range v.PatStyle {
				if v.PatStyle[i].Re == re {
					ps = &v.PatStyle[i]
				}
			}
			if ps == nil && len(props) > 0 {
				v.PatStyle = append(v.PatStyle, patStyles{Re: re, Styles: map[string][]StyleRule{}})
				ps = &v.PatStyle[len(v.PatStyle)-1]
			}
			for _, pr := range props {
				ps.Styles[pr] = append(ps.Styles[pr], mk(pr))
			}
		case "global":
			for _, pr := range props {
				v.GlobStyle[pr] = append(v.GlobStyle[pr], mk(pr))
			}
		}
	case "SkipElementsContent":
		for _, e := range lowerAll(c.Names) {
			v.Skip[e] = true
		}
	case "AllowElementsContent":
		for _, e := range lowerAll(c.Names) {
			delete(v.Skip, e)
		}
	case "AllowURLSchemes":
		v.ParseableURLs = true
		for _, s := range lowerAll(c.Names) {
			v.Schemes[s] = nil
		}
	case "AllowURLSchemeWithCustomPolicy":
		v.ParseableURLs = true
		s := strings.ToLower(c.Names[0])
		v.Schemes[s] = append(v.Schemes[s], c.Fn)
	case "AllowURLSchemesMatching":
		v.SchemeRes = append(v.SchemeRes, Regexp(c.Re))
	case "RequireParseableURLs":
		v.ParseableURLs = c.Bool
	case "AllowRelativeURLs":
		v.ParseableURLs = true
		v.RelativeURLs = c.Bool
	case "RequireNoFollowOnLinks":
		v.NoFollow, v.ParseableURLs = c.Bool, true
	case "RequireNoFollowOnFullyQualifiedLinks":
		v.NoFollowFQ, v.ParseableURLs = c.Bool, true
	case "RequireNoReferrerOnLinks":
		v.NoReferrer, v.ParseableURLs = c.Bool, true
	case "RequireNoReferrerOnFullyQualifiedLinks":
		v.NoReferrerFQ, v.ParseableURLs = c.Bool, true
	case "AddTargetBlankToFullyQualifiedLinks":
		v.TargetBlank, v.ParseableURLs = c.Bool, true
	case "RequireCrossOriginAnonymous":
		v.CrossOrigin = c.Bool
	case "RequireSandboxOnIFrame":
		v.Sandbox = map[string]bool{}
		for _, i := range c.Ints {
			if i >= 0 && i < len(SandboxNames) {
				v.Sandbox[SandboxNames[i]] = true
			}
		}
	case "AllowIFrames":
		v.apply(Call{Op: "AllowAttrs", Names: []string{"sandbox"}, Scope: "on", On: []string{"iframe"}})
		v.apply(Call{Op: "RequireSandboxOnIFrame", Ints: c.Ints})
	case "AddSpaceWhenStrippingTag":
		v.AddSpaces = c.Bool
	case "AllowDataAttributes":
		v.DataAttrs = true
	case "AllowComments":
		v.Comments = true
	case "AllowUnsafe":
		v.Unsafe = c.Bool
	case "RewriteSrc":
		v.Rewriter = c.Fn
	case "AllowStandardURLs":
		v.apply(Call{Op: "RequireParseableURLs", Bool: true})
		v.apply(Call{Op: "AllowRelativeURLs", Bool: true})
		v.apply(Call{Op: "AllowURLSchemes", Names: []string{"mailto", "http", "https"}})
		v.apply(Call{Op: "RequireNoFollowOnLinks", Bool: true})
	case "AllowStandardAttributes":
		v.apply(Call{Op: "AllowAttrs", Names: []string{"dir"}, Re: "Direction", Scope: "global"})
		v.apply(Call{Op: "AllowAttrs", Names: []string{"lang"}, Re: `[a-zA-Z]{2,20}`, Scope: "global"})
		v.apply(Call{Op: "AllowAttrs", Names: []string{"id"}, Re: `[a-zA-Z0-9\:\-_\.]+`, Scope: "global"})
		v.apply(Call{Op: "AllowAttrs", Names: []string{"title"}, Re: "Paragraph", Scope: "global"})
	case "AllowStyling":
		v.apply(Call{Op: "AllowAttrs", Names: []string{"class"}, Re: "SpaceSeparatedTokens", Scope: "global"})
	case "AllowImages":
		v.apply(Call{Op: "AllowAttrs", Names: []string{"align"}, Re: "ImageAlign", Scope: "on", On: []string{"img"}})
		v.apply(Call{Op: "AllowAttrs", Names: []string{"alt"}, Re: "Paragraph", Scope: "on", On: []string{"img"}})
		v.apply(Call{Op: "AllowAttrs", Names: []string{"height", "width"}, Re: "NumberOrPercent", Scope: "on", On: []string{"img"}})
		v.apply(Call{Op: "AllowStandardURLs"})
		v.apply(Call{Op: "AllowAttrs", Names: []string{"src"}, Scope: "on", On: []string{"img"}})
	case "AllowDataURIImages":
		v.apply(Call{Op: "RequireParseableURLs", Bool: true})
		v.apply(Call{Op: "AllowURLSchemeWithCustomPolicy", Names: []string{"data"}, Fn: "data-uri-image"})
	case "AllowLists":
		v.apply(Call{Op: "AllowAttrs", Names: []string{"type"}, Re: "ListType", Scope: "on", On: []string{"ol", "ul", "li"}})
		v.apply(Call{Op: "AllowAttrs", Names: []string{"value"}, Re: "Integer", Scope: "on", On: []string{"li"}})
		v.apply(Call{Op: "AllowElements", Names: []string{"dl", "dt", "dd"}})
	case "AllowTables":
		for _, c2 := range tablesCalls() {
			v.apply(c2)
		}
	default:
		panic("spec view: unknown op " + c.Op)
	}
}

// ---- queries ----------------------------------------------------------------

// ElementAllowed reports whether the element is allowed by name or by pattern.
func (v *View) ElementAllowed(name string) bool {
	if v.Elements[name] {
		return true
	}
	for _, r := range v.ElemRes {
		if r.MatchString(name) {
			return true
		}
	}
	return false
}

// ElementExplicit reports whether the element is allowed by name.
func (v *View) ElementExplicit(name string) bool { return v.Elements[name] }

// AttrRules returns every rule that could justify attribute key on element el:
// element rules, rules of every matching element pattern, and global rules.
func (v *View) AttrRules(el, key string) []AttrRule {
	var out []AttrRule
	out = append(out, v.ElemAttr[el][key]...)
	for _, pa := range v.PatAttr {
		if pa.Re.MatchString(el) {
			out = append(out, pa.Attrs[key]...)
		}
	}
	out = append(out, v.Global[key]...)
	return out
}

// AttrRulesStrict is AttrRules with the README precedence: an element allowed by
// name ignores element-pattern rules.
func (v *View) AttrRulesStrict(el, key string) []AttrRule {
	var out []AttrRule
	if v.Elements[el] {
		out = append(out, v.ElemAttr[el][key]...)
	} else {
		for _, pa := range v.PatAttr {
			if pa.Re.MatchString(el) {
				out = append(out, pa.Attrs[key]...)
			}
		}
	}
	out = append(out, v.Global[key]...)
	return out
}

// BareAllowed reports whether el may be emitted with no attributes.
func (v *View) BareAllowed(el string) bool {
	if v.Bare[el] {
		return true
	}
	for _, r := range v.BareRes {
		if r.MatchString(el) {
			return true
		}
	}
	return false
}

// StyleRules returns every style rule that could justify property prop on el.
func (v *View) StyleRules(el, prop string) []StyleRule {
	var out []StyleRule
	out = append(out, v.ElemStyle[el][prop]...)
	for _, ps := range v.PatStyle {
		if ps.Re.MatchString(el) {
			out = append(out, ps.Styles[prop]...)
		}
	}
	out = append(out, v.GlobStyle[prop]...)
	return out
}

// StyleGoverned reports whether style rules govern el (so that the style
// attribute is routed through the declaration filter).
func (v *View) StyleGoverned(el string) bool {
	if len(v.GlobStyle) > 0 || len(v.ElemStyle[el]) > 0 {
		return true
	}
	for _, ps := range v.PatStyle {
		if ps.Re.MatchString(el) && len(ps.Styles) > 0 {
			return true
		}
	}
	return false
}

// LinkOptionOn reports whether any of the five link options is on.
func (v *View) LinkOptionOn() bool {
	return v.NoFollow || v.NoFollowFQ || v.NoReferrer || v.NoReferrerFQ || v.TargetBlank
}

// AllowedElementNames lists explicit element names, sorted.
func (v *View) AllowedElementNames() []string {
	var out []string
	for e := range v.Elements {
		out = append(out, e)
	}
	sort.Strings(out)
	return out
}

// RawTextAllowed reports whether the policy allows any raw-text element.
func (v *View) RawTextAllowed() bool {
	for _, e := range []string{"iframe", "noembed", "noframes", "noscript", "plaintext", "xmp", "script", "style", "textarea", "title"} {
		if v.ElementAllowed(e) {
			return true
		}
	}
	return false
}

func mustJSON(x interface{}) string {
	b, err := json.Marshal(x)
	if err != nil {
		panic(fmt.Sprint(err))
	}
	return string(b)
}

// Canon returns a canonical description of the view: the *set* of rules (names
// lower-cased, duplicates and order removed) plus the current value of every
// switch. Two builder histories with the same Canon are rule-equivalent.
func (v *View) Canon() string {
	var b strings.Builder
	set := func(name string, m map[string]bool) {
		var ks []string
		for k, on := range m {
			if on {
				ks = append(ks, k)
			}
		}
		sort.Strings(ks)
		fmt.Fprintf(&b, "%s=%v;", name, ks)
	}
	reStr := func(rs []*regexp.Regexp) []string {
		m := map[string]bool{}
		for _, r := range rs {
			m[r.String()] = true
		}
		var ks []string
		for k := range m {
			ks = append(ks, k)
		}
		sort.Strings(ks)
		return ks
	}
	rules := func(rs []AttrRule) []string {
		m := map[string]bool{}
		for _, r := range rs {
			if r.Re == nil {
				m["*"] = true
			} else {
				m["re:"+r.Re.String()] = true
			}
		}
		var ks []string
		for k := range m {
			ks = append(ks, k)
		}
		sort.Strings(ks)
		return ks
	}
	attrMap := func(m map[string][]AttrRule) string {
		var ks []string
		for k := range m {
			ks = append(ks, k)
		}
		sort.Strings(ks)
		var sb strings.Builder
		for _, k := range ks {
			fmt.Fprintf(&sb, "%s:%v,", k, rules(m[k]))
		}
		return sb.String()
	}
	srules := func(rs []StyleRule) []string {
		m := map[string]bool{}
		for _, r := range rs {
			m[r.Key] = true
		}
		var ks []string
		for k := range m {
			ks = append(ks, k)
		}
		sort.Strings(ks)
		return ks
	}
	styleMap := func(m map[string][]StyleRule) string {
		var ks []string
		for k := range m {
			ks = append(ks, k)
		}
		sort.Strings(ks)
		var sb strings.Builder
		for _, k := range ks {
			fmt.Fprintf(&sb, "%s:%v,", k, srules(m[k]))
		}
		return sb.String()
	}
	set("elements", v.Elements)
	fmt.Fprintf(&b, "elemres=%v;", reStr(v.ElemRes))
	{
		var ks []string
		for k := range v.ElemAttr {
			ks = append(ks, k)
		}
		sort.Strings(ks)
		for _, k := range ks {
			fmt.Fprintf(&b, "ea[%s]={%s};", k, attrMap(v.ElemAttr[k]))
		}
	}
	{
		merged := map[string]map[string][]AttrRule{}
		for _, pa := range v.PatAttr {
			k := pa.Re.String()
			if merged[k] == nil {
				merged[k] = map[string][]AttrRule{}
			}
			for a, rs := range pa.Attrs {
				merged[k][a] = append(merged[k][a], rs...)
			}
		}
		var ks []string
		for k := range merged {
			ks = append(ks, k)
		}
		sort.Strings(ks)
		for _, k := range ks {
			fmt.Fprintf(&b, "pa[%s]={%s};", k, attrMap(merged[k]))
		}
	}
	fmt.Fprintf(&b, "global={%s};", attrMap(v.Global))
	set("bare", v.Bare)
	fmt.Fprintf(&b, "bareres=%v;", reStr(v.BareRes))
	set("skip", v.Skip)
	{
		var ks []string
		for k := range v.ElemStyle {
			ks = append(ks, k)
		}
		sort.Strings(ks)
		for _, k := range ks {
			fmt.Fprintf(&b, "es[%s]={%s};", k, styleMap(v.ElemStyle[k]))
		}
		merged := map[string]map[string][]StyleRule{}
		for _, ps := range v.PatStyle {
			k := ps.Re.String()
			if merged[k] == nil {
				merged[k] = map[string][]StyleRule{}
			}
			for a, rs := range ps.Styles {
				merged[k][a] = append(merged[k][a], rs...)
			}
		}
		ks = nil
		for k := range merged {
			ks = append(ks, k)
		}
		sort.Strings(ks)
		for _, k := range ks {
			fmt.Fprintf(&b, "ps[%s]={%s};", k, styleMap(merged[k]))
		}
		fmt.Fprintf(&b, "gs={%s};", styleMap(v.GlobStyle))
	}
	fmt.Fprintf(&b, "opts=%v,%v,%v,%v,%v,%v,%v,%v,%v,%v,%v,%v;", v.AddSpaces, v.NoFollow, v.NoFollowFQ, v.NoReferrer, v.NoReferrerFQ, v.TargetBlank,
		v.ParseableURLs, v.RelativeURLs, v.DataAttrs, v.Comments, v.CrossOrigin, v.Unsafe)
	if v.Sandbox == nil {
		b.WriteString("sandbox=off;")
	} else {
		set("sandbox", v.Sandbox)
	}
	{
		var ks []string
		for k := range v.Schemes {
			ks = append(ks, k)
		}
		sort.Strings(ks)
		for _, k := range ks {
			fns := append([]string{}, v.Schemes[k]...)
			sort.Strings(fns)
			// duplicates of the same check are one alternative
			var u []string
			for i, f := range fns {
				if i == 0 || fns[i-1] != f {
					u = append(u, f)
				}
			}
			if len(u) == 0 {
				fmt.Fprintf(&b, "scheme[%s]=*;", k)
			} else {
				fmt.Fprintf(&b, "scheme[%s]=%v;", k, u)
			}
		}
	}
	fmt.Fprintf(&b, "schemeres=%v;rewriter=%s", reStr(v.SchemeRes), v.Rewriter)
	return b.String()
}
