//go:build !verif

// Package hooks (stub): the binary was built without the instrumentation overlay.
package hooks

import "github.com/microcosm-cc/bluemonday"

// Available reports whether the binary was built with the instrumentation overlay.
const Available = false

func SetPoint(f func(id int))                   {}
func Point(id int)                              {}
func SetMapOrder(f func(site, n int) []int)     {}
func SetLoopState(f func(render func() string)) {}
func Snapshot(p *bluemonday.Policy) string      { return "" }

func SnapshotPolicy(p *bluemonday.Policy) string { return "" }
func SnapshotGlobals() string                    { return "" }
