//go:build verif

// Package hooks gives the harness access to the instrumentation that
// cmd/instrument adds to packages bluemonday and css through a build overlay.
// This file is compiled only with -tags verif (together with -overlay).
package hooks

import (
	"github.com/microcosm-cc/bluemonday"
	"github.com/microcosm-cc/bluemonday/css"
)

// Available reports whether the binary was built with the instrumentation overlay.
const Available = true

// SetPoint installs the function called at every instrumented point (nil to remove).
func SetPoint(f func(id int)) { css.VerifHook = f }

// Point is a scheduling point of the harness's own (used inside destination writers: I/O is where a goroutine parks).
func Point(id int) {
	if h := css.VerifHook; h != nil {
		h(id)
	}
}

// SetMapOrder installs the map-range order chooser (nil = sorted order).
func SetMapOrder(f func(site, n int) []int) { css.VerifMapOrderHook = f }

// SetLoopState installs the receiver of the token loop's state renderer.
func SetLoopState(f func(render func() string)) { bluemonday.VerifLoopStateHook = f }

// Snapshot renders the policy object graph and all package-level variables.
func Snapshot(p *bluemonday.Policy) string { return bluemonday.VerifSnapshot(p) }

// SnapshotPolicy renders the policy object graph only.
func SnapshotPolicy(p *bluemonday.Policy) string { return bluemonday.VerifSnapshotPolicy(p) }

// SnapshotGlobals renders all package-level variables of both packages.
func SnapshotGlobals() string { return bluemonday.VerifSnapshotGlobals() }
