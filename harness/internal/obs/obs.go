// Package obs holds the observers shared by all checks. Each is independent of
// the code under test: the x/net/html tokenizer and tree builder (the observers
// the properties name), a WHATWG-style URL scheme extractor, a CSS escape
// decoder, a rel-token splitter and a tag balance checker.
package obs

import (
	"strings"
	"unicode/utf8"

	"golang.org/x/net/html"
	"golang.org/x/net/html/atom"
)

// Tok is one token of a re-tokenised document.
type Tok struct {
	Type html.TokenType
	Name string // tag name (lower-cased by the tokenizer) for tags
	Attr []html.Attribute
	Data string // text / comment / doctype data (decoded)
}

// Retok tokenises s with x/net/html exactly as a consumer of the output would.
func Retok(s string) []Tok {
	z := html.NewTokenizer(strings.NewReader(s))
	var out []Tok
	for {
		tt := z.Next()
		if tt == html.ErrorToken {
			return out
		}
		t := z.Token()
		k := Tok{Type: t.Type}
		switch t.Type {
		case html.StartTagToken, html.EndTagToken, html.SelfClosingTagToken:
			k.Name = t.Data
			k.Attr = t.Attr
		default:
			k.Data = t.Data
		}
		out = append(out, k)
	}
}

// Text concatenates the text tokens.
func Text(toks []Tok) string {
	var b strings.Builder
	for _, t := range toks {
		if t.Type == html.TextToken {
			b.WriteString(t.Data)
		}
	}
	return b.String()
}

// FlowContexts are the ordinary flow-content containers fragments are parsed in.
var FlowContexts = []string{"body", "div", "p", "td", "li", "span", "blockquote", "section"}

// DOM parses s as a fragment inside the named container element.
func DOM(s, ctx string) []*html.Node {
	c := &html.Node{Type: html.ElementNode, Data: ctx, DataAtom: atom.Lookup([]byte(ctx))}
	ns, err := html.ParseFragment(strings.NewReader(s), c)
	if err != nil {
		return nil
	}
	return ns
}

// Walk visits every node of the forest in document order.
func Walk(ns []*html.Node, fn func(n *html.Node)) {
	var rec func(n *html.Node)
	rec = func(n *html.Node) {
		fn(n)
		for c := n.FirstChild; c != nil; c = c.NextSibling {
			rec(c)
		}
	}
	for _, n := range ns {
		rec(n)
	}
}

// Ancestors returns lower-cased element names from the root down to n's parent.
func HasAncestor(n *html.Node, names ...string) bool {
	for p := n.Parent; p != nil; p = p.Parent {
		if p.Type == html.ElementNode {
			l := asciiLower(p.Data)
			for _, x := range names {
				if l == x {
					return true
				}
			}
		}
	}
	return false
}

// ---- URL scheme, WHATWG style, no net/url ------------------------------------

// URLScheme classifies v the way a browser's URL parser starts: strip leading and
// trailing C0 control or space, remove all ASCII tab / LF / CR, then look for
// ^[A-Za-z][A-Za-z0-9+.-]*: . It returns the lower-cased scheme and true, or
// "" and false for a relative reference.
func URLScheme(v string) (string, bool) {
	s := strings.TrimFunc(v, func(r rune) bool { return r <= 0x20 })
	s = strings.NewReplacer("\t", "", "\n", "", "\r", "").Replace(s)
	for i := 0; i < len(s); i++ {
		c := s[i]
		switch {
		case c >= 'a' && c <= 'z', c >= 'A' && c <= 'Z':
		case i > 0 && (c >= '0' && c <= '9' || c == '+' || c == '.' || c == '-'):
		case c == ':' && i > 0:
			return strings.ToLower(s[:i]), true
		default:
			return "", false
		}
	}
	return "", false
}

// HasCtlOrSpace reports a byte <= 0x20 or 0x7f anywhere in v.
func HasCtlOrSpace(v string) bool {
	for i := 0; i < len(v); i++ {
		if v[i] <= 0x20 || v[i] == 0x7f {
			return true
		}
	}
	return false
}

// ---- CSS escapes (css-syntax-3 §4.3.7) ---------------------------------------

func isHex(c byte) bool {
	return c >= '0' && c <= '9' || c >= 'a' && c <= 'f' || c >= 'A' && c <= 'F'
}

// CSSDecode decodes CSS escapes in a declaration value as a browser's tokenizer
// would when consuming identifiers, strings and urls: "\" + 1-6 hex digits +
// optional single whitespace => that code point (U+FFFD for 0, surrogates and
// > U+10FFFF); "\" + newline => removed (string continuation); "\" + any other
// char => that char; trailing "\" => U+FFFD.
func CSSDecode(s string) string {
	var b strings.Builder
	for i := 0; i < len(s); {
		c := s[i]
		if c != '\\' {
			b.WriteByte(c)
			i++
			continue
		}
		i++
		if i >= len(s) {
			b.WriteRune(0xFFFD)
			break
		}
		if isHex(s[i]) {
			j := i
			v := 0
			for j < len(s) && j-i < 6 && isHex(s[j]) {
				d := s[j]
				switch {
				case d >= '0' && d <= '9':
					v = v*16 + int(d-'0')
				case d >= 'a' && d <= 'f':
					v = v*16 + int(d-'a') + 10
				default:
					v = v*16 + int(d-'A') + 10
				}
				j++
			}
			if j < len(s) && (s[j] == ' ' || s[j] == '\t' || s[j] == '\n' || s[j] == '\f' || s[j] == '\r') {
				if s[j] == '\r' && j+1 < len(s) && s[j+1] == '\n' {
					j++
				}
				j++
			}
			if v == 0 || v > 0x10FFFF || (v >= 0xD800 && v <= 0xDFFF) {
				v = 0xFFFD
			}
			b.WriteRune(rune(v))
			i = j
			continue
		}
		if s[i] == '\n' || s[i] == '\f' {
			i++
			continue
		}
		if s[i] == '\r' {
			i++
			if i < len(s) && s[i] == '\n' {
				i++
			}
			continue
		}
		r, n := utf8.DecodeRuneInString(s[i:])
		b.WriteRune(r)
		i += n
	}
	return b.String()
}

// ---- rel tokens ---------------------------------------------------------------

// RelTokens splits on ASCII whitespace and lower-cases ASCII letters.
func RelTokens(v string) []string {
	f := strings.FieldsFunc(v, func(r rune) bool {
		return r == ' ' || r == '\t' || r == '\n' || r == '\f' || r == '\r'
	})
	for i := range f {
		f[i] = asciiLower(f[i])
	}
	return f
}

func asciiLower(s string) string {
	b := []byte(s)
	for i, c := range b {
		if c >= 'A' && c <= 'Z' {
			b[i] = c + 32
		}
	}
	return string(b)
}

// HasToken reports whether tok is among the rel tokens of v.
func HasToken(v, tok string) bool {
	for _, t := range RelTokens(v) {
		if t == tok {
			return true
		}
	}
	return false
}

// CountToken counts occurrences of tok among the rel tokens of v.
func CountToken(v, tok string) int {
	n := 0
	for _, t := range RelTokens(v) {
		if t == tok {
			n++
		}
	}
	return n
}

// ---- balance -------------------------------------------------------------------

var voidEls = map[string]bool{"area": true, "base": true, "br": true, "col": true, "embed": true, "hr": true,
	"img": true, "input": true, "link": true, "meta": true, "param": true, "source": true, "track": true,
	"wbr": true, "keygen": true, "command": true, "frame": true, "basefont": true, "bgsound": true}

// IsVoid reports whether name is an HTML void element.
func IsVoid(name string) bool { return voidEls[name] }

// Balance runs a stack check over the tag tokens: every non-void start tag must
// be closed by a matching end tag in LIFO order, and no end tag may appear
// without its start tag. Self-closing tokens and void start tags are leaves.
// Returns "" if balanced, otherwise a description of the first problem.
func Balance(toks []Tok) string {
	var st []string
	for _, t := range toks {
		switch t.Type {
		case html.StartTagToken:
			if !voidEls[t.Name] {
				st = append(st, t.Name)
			}
		case html.EndTagToken:
			if voidEls[t.Name] {
				return "end tag for void element </" + t.Name + ">"
			}
			if len(st) == 0 {
				return "stray end tag </" + t.Name + ">"
			}
			if st[len(st)-1] != t.Name {
				return "mismatched end tag </" + t.Name + "> while <" + st[len(st)-1] + "> open"
			}
			st = st[:len(st)-1]
		}
	}
	if len(st) > 0 {
		return "unclosed <" + st[len(st)-1] + ">"
	}
	return ""
}

// ASCIILower lower-cases ASCII letters only, as the HTML tokenizer does (Unicode
// case folding would turn look-alikes such as "scrİpt" into "script").
func ASCIILower(s string) string { return asciiLower(s) }
