// Package run is the common driver: sharded worker processes, accounting,
// violations with replay artefacts, known findings and evidence files.
package run

import (
	"bufio"
	"bytes"
	"crypto/sha256"
	"encoding/base64"
	"encoding/hex"
	"encoding/json"
	"fmt"
	"os"
	"os/exec"
	"path/filepath"
	"runtime"
	"runtime/debug"
	"sort"
	"strconv"
	"strings"
	"sync"
	"sync/atomic"
	"time"
)

// VerifDir is the root of the verification tree.
var VerifDir = func() string {
	if d := os.Getenv("VERIF_DIR"); d != "" {
		return d
	}
	return "/verif"
}()

// Check describes one property check.
type Check struct {
	ID          string
	Level       string // model_checking | fault_enumeration
	Rule        string // how cases are enumerated and what counts as non-trivial
	Assumptions []string
	// Budget is the soft wall-clock budget in seconds per tier after which shards
	// stop early and report exhaustive:false (never a violation).
	QuickBudget, ThoroughBudget int
	// Shards is the number of worker processes (0 = 16); MaxProcs is GOMAXPROCS
	// inside each (0 = 2). A check that needs one shared state table runs as a
	// single shard with many threads.
	Shards, MaxProcs int
	Run              func(c *Ctx)
	// Post, if set, runs in the parent after all shards finished, over files the shards left in the work
	// directory (used when a verdict needs to compare cases that were executed by different shards).
	Post func(workDir string, shards int) PostResult
	// Replay re-executes one recorded case without any explorer and reports
	// whether it violates the property.
	Replay func(caseJSON json.RawMessage) (bool, string)
}

// PostResult is what a Check.Post hook contributes to the merged result.
type PostResult struct {
	Violations []Violation
	States     int64
	Nontrivial int64
	Outcomes   map[string]int64
	Incomplete string // non-empty: why the post step could not judge everything
}

// WorkDir is the per-run scratch directory as seen from a shard (the directory of its result file).
func (c *Ctx) WorkDir() string { return c.workDir }

// Violation is one failing case.
type Violation struct {
	Property  string          `json:"property"`
	Signature string          `json:"signature"`
	What      string          `json:"what"`
	Case      json.RawMessage `json:"case"`
}

// Ctx is handed to Check.Run inside each shard.
type Ctx struct {
	ID      string
	Tier    string
	Seed    int
	Shard   int
	NShards int
	memStop int32 // set by the memory watchdog at two thirds of the hard limit

	Evals       int64
	States      int64
	Transitions int64
	Traces      int64
	Skipped     int64
	nontrivial  map[uint64]struct{}
	NontrivialN int64
	seen        map[[2]uint64]struct{}
	Outcomes    map[string]int64
	Samples     []interface{}
	Violations  []Violation
	sigCount    map[string]int
	Caps        []string
	Notes       map[string]interface{}
	workDir     string
	deadline    time.Time
	expired     bool
	setCapNoted bool
	tick        int
	trace       *os.File
	mu          sync.Mutex
}

// Quick reports whether the tier is quick.
func (c *Ctx) Quick() bool { return c.Tier != "thorough" }

// Expired reports whether the soft budget ended; callers stop enumerating.
func (c *Ctx) Expired() bool {
	if c.expired {
		return true
	}
	if atomic.LoadInt32(&c.memStop) != 0 {
		c.expired = true
		c.Cap("soft memory limit reached: exploration stopped early, results so far are reported")
		return true
	}
	c.tick++
	if c.tick&0x3ff == 0 && time.Now().After(c.deadline) {
		c.expired = true
		c.Cap("soft time budget reached")
	}
	return c.expired
}

// Cap records that a bound below the nominal one ended (part of) the run.
func (c *Ctx) Cap(s string) {
	for _, x := range c.Caps {
		if x == s {
			return
		}
	}
	c.Caps = append(c.Caps, s)
}

// Hash128 is two independent FNV-1a style 64-bit hashes.
func Hash128(parts ...[]byte) [2]uint64 {
	h1, h2 := uint64(14695981039346656037), uint64(0x9e3779b97f4a7c15)
	for _, p := range parts {
		for _, b := range p {
			h1 ^= uint64(b)
			h1 *= 1099511628211
			h2 ^= uint64(b)
			h2 *= 0x100000001b3 + 0x2000
			h2 ^= h2 >> 29
		}
		h1 ^= 0xff
		h1 *= 1099511628211
		h2 ^= 0xfe
		h2 *= 0x100000001b3 + 0x2000
	}
	return [2]uint64{h1, h2}
}

// Own decides whether the case identified by key belongs to this shard and has
// not been seen before. Cases are partitioned by hash, so duplicates always land
// in the same shard and the per-shard distinct counts add up exactly.
func (c *Ctx) Own(key ...[]byte) bool {
	h := Hash128(key...)
	if int(h[0]%uint64(c.NShards)) != c.Shard {
		return false
	}
	if _, dup := c.seen[h]; dup {
		c.Skipped++
		return false
	}
	c.remember(h)
	return true
}

// setCap bounds the memory of the de-duplication sets: beyond it new cases are no longer remembered (they
// are still executed and counted; duplicates, rare by construction of the enumerations, may then be counted twice).
const setCap = 6000000

func (c *Ctx) remember(h [2]uint64) {
	if len(c.seen) < setCap {
		c.seen[h] = struct{}{}
	} else if !c.setCapNoted {
		c.setCapNoted = true
		c.Notes["dedup_set_capped"] = "duplicate detection limited to the first 6M cases per shard (memory bound); later duplicates may be counted twice"
	}
}

// OwnHash is Own for a pre-computed hash.
func (c *Ctx) OwnHash(h [2]uint64) bool {
	if int(h[0]%uint64(c.NShards)) != c.Shard {
		return false
	}
	if _, dup := c.seen[h]; dup {
		c.Skipped++
		return false
	}
	c.remember(h)
	return true
}

// Eval counts one executed case.
func (c *Ctx) Eval() { c.Evals++ }

// Nontrivial records a distinct non-trivial case (by key).
func (c *Ctx) Nontrivial(key ...[]byte) {
	if len(c.nontrivial) >= setCap {
		c.NontrivialN++ // beyond the cap: counted without the set (cases are already de-duplicated by Own)
		return
	}
	h := Hash128(key...)[1]
	if _, ok := c.nontrivial[h]; !ok {
		c.nontrivial[h] = struct{}{}
		c.NontrivialN++
	}
}

// Outcome counts an outcome class.
func (c *Ctx) Outcome(class string) { c.Outcomes[class]++ }

// Sample keeps up to a few sample cases per shard.
func (c *Ctx) Sample(s interface{}) {
	if len(c.Samples) < 6 {
		c.Samples = append(c.Samples, s)
	}
}

// WantSample reports whether more samples are wanted (to avoid building them).
func (c *Ctx) WantSample() bool { return len(c.Samples) < 6 }

// Trace writes the case about to be executed when the shard runs in trace mode
// (used after a fatal crash to attribute it to one case).
func (c *Ctx) Trace(f func() string) {
	if c.trace != nil {
		c.trace.Truncate(0)
		c.trace.WriteAt([]byte(f()), 0)
	}
}

// Tracing reports whether trace mode is on.
func (c *Ctx) Tracing() bool { return c.trace != nil }

// Violate records a violation (at most 3 per signature, 200 per shard).
func (c *Ctx) Violate(sig, what string, cas interface{}) {
	c.mu.Lock()
	defer c.mu.Unlock()
	if c.sigCount[sig] >= 3 || len(c.Violations) >= 200 {
		c.sigCount[sig]++
		return
	}
	c.sigCount[sig]++
	if len(what) > 4000 {
		what = what[:2500] + fmt.Sprintf(" ...[%d bytes omitted; the case file has the input]... ", len(what)-3000) + what[len(what)-500:]
	}
	b, _ := json.Marshal(cas)
	c.Violations = append(c.Violations, Violation{Property: c.ID, Signature: sig, What: what, Case: b})
}

// ---- shard result ---------------------------------------------------------------

type shardResult struct {
	Evals, States, Transitions, Traces, Skipped, Nontrivial int64
	Outcomes                                                map[string]int64
	Samples                                                 []interface{}
	Violations                                              []Violation
	SigCount                                                map[string]int
	Caps                                                    []string
	Notes                                                   map[string]interface{}
	Wall                                                    float64
}

// RunShard executes one shard in this process and writes its result file.
func RunShard(ck *Check, tier string, shard, n int, out string) {
	debug.SetMaxStack(256 << 20)
	budget := ck.QuickBudget
	if tier == "thorough" {
		budget = ck.ThoroughBudget
	}
	if budget == 0 {
		budget = 60
	}
	if b := os.Getenv("VERIF_BUDGET"); b != "" {
		if v, err := strconv.Atoi(b); err == nil {
			budget = v
		}
	}
	seed, _ := strconv.Atoi(os.Getenv("VERIF_SEED"))
	c := &Ctx{ID: ck.ID, Tier: tier, Seed: seed, Shard: shard, NShards: n,
		nontrivial: map[uint64]struct{}{}, seen: map[[2]uint64]struct{}{},
		Outcomes: map[string]int64{}, sigCount: map[string]int{}, Notes: map[string]interface{}{},
		deadline: time.Now().Add(time.Duration(budget) * time.Second), workDir: filepath.Dir(out)}
	if tp := os.Getenv("VERIF_TRACE"); tp != "" {
		f, err := os.Create(tp)
		if err == nil {
			c.trace = f
		}
	}
	t0 := time.Now()
	// memory watchdog: unbounded growth (for example a policy table that grows with every call)
	// must end as an attributable crash, not as a machine that swaps
	go func() {
		limit := uint64(3 << 30)
		for {
			time.Sleep(500 * time.Millisecond)
			var ms runtime.MemStats
			runtime.ReadMemStats(&ms)
			if ms.HeapAlloc > limit*2/3 {
				// wind down in an orderly way first, so that what was found so far is still reported
				atomic.StoreInt32(&c.memStop, 1)
			}
			if ms.HeapAlloc > limit {
				fmt.Fprintf(os.Stderr, "fatal error: verif memory limit exceeded (heap %d MiB) after %d evaluations\n", ms.HeapAlloc>>20, c.Evals)
				os.Exit(4)
			}
		}
	}()
	ck.Run(c)
	r := shardResult{Evals: c.Evals, States: c.States, Transitions: c.Transitions, Traces: c.Traces,
		Skipped: c.Skipped, Nontrivial: c.NontrivialN, Outcomes: c.Outcomes, Samples: c.Samples,
		Violations: c.Violations, SigCount: c.sigCount, Caps: c.Caps, Notes: c.Notes, Wall: time.Since(t0).Seconds()}
	b, _ := json.Marshal(r)
	if err := os.WriteFile(out, b, 0o644); err != nil {
		fmt.Fprintln(os.Stderr, "shard: cannot write result:", err)
		os.Exit(3)
	}
}

// ---- known findings ----------------------------------------------------------------

type knownFinding struct {
	Property  string `json:"property"`
	Signature string `json:"signature"`
	What      string `json:"what"`
}

func loadKnown() []knownFinding {
	f, err := os.Open(filepath.Join(VerifDir, "known_findings.jsonl"))
	if err != nil {
		return nil
	}
	defer f.Close()
	var out []knownFinding
	sc := bufio.NewScanner(f)
	sc.Buffer(make([]byte, 1<<20), 1<<20)
	for sc.Scan() {
		line := strings.TrimSpace(sc.Text())
		if line == "" || strings.HasPrefix(line, "#") || strings.HasPrefix(line, "fixed:") {
			continue // fixed: entries suppress nothing
		}
		var k knownFinding
		if json.Unmarshal([]byte(line), &k) == nil && k.Property != "" && k.Signature != "" {
			out = append(out, k)
		}
	}
	return out
}

// ---- parent ---------------------------------------------------------------------------

// Main runs a check: spawns shards of the current binary, merges, decides.
func Main(ck *Check, tier string) int {
	t0 := time.Now()
	n := 16
	if ck.Shards > 0 {
		n = ck.Shards
	}
	if v := os.Getenv("VERIF_SHARDS"); v != "" && ck.Shards == 0 {
		if k, err := strconv.Atoi(v); err == nil && k > 0 {
			n = k
		}
	}
	work := os.Getenv("VERIF_WORK")
	if work == "" {
		work = filepath.Join(VerifDir, ".work", fmt.Sprint(os.Getpid()))
	}
	os.MkdirAll(work, 0o755)
	self, _ := os.Executable()
	budget := ck.QuickBudget
	if tier == "thorough" {
		budget = ck.ThoroughBudget
	}
	if budget == 0 {
		budget = 60
	}
	if b := os.Getenv("VERIF_BUDGET"); b != "" {
		if v, err := strconv.Atoi(b); err == nil {
			budget = v
		}
	}
	hard := time.Duration(budget*3+120) * time.Second

	type res struct {
		r      shardResult
		ok     bool
		crash  string
		stderr string
	}
	results := make([]res, n)
	var wg sync.WaitGroup
	runOne := func(i int, trace string) (shardResult, bool, string, string) {
		out := filepath.Join(work, fmt.Sprintf("shard-%s-%d.json", ck.ID, i))
		os.Remove(out)
		cmd := exec.Command(self, "shard", ck.ID, tier, strconv.Itoa(i), strconv.Itoa(n), out)
		mp := 2
		if ck.MaxProcs > 0 {
			mp = ck.MaxProcs
		}
		cmd.Env = append(os.Environ(), "GOMAXPROCS="+strconv.Itoa(mp))
		if trace != "" {
			cmd.Env = append(cmd.Env, "VERIF_TRACE="+trace)
		}
		var eb bytes.Buffer
		cmd.Stderr = &eb
		cmd.Stdout = &eb
		if err := cmd.Start(); err != nil {
			return shardResult{}, false, "cannot start shard: " + err.Error(), ""
		}
		done := make(chan error, 1)
		go func() { done <- cmd.Wait() }()
		var werr error
		select {
		case werr = <-done:
		case <-time.After(hard):
			cmd.Process.Kill()
			<-done
			return shardResult{}, false, "hard timeout", tail(eb.String(), 2000)
		}
		if werr != nil {
			return shardResult{}, false, "shard died: " + werr.Error(), tail(eb.String(), 4000)
		}
		b, err := os.ReadFile(out)
		if err != nil {
			return shardResult{}, false, "no shard result: " + err.Error(), tail(eb.String(), 2000)
		}
		var r shardResult
		if err := json.Unmarshal(b, &r); err != nil {
			return shardResult{}, false, "bad shard result: " + err.Error(), ""
		}
		os.Remove(out)
		return r, true, "", eb.String()
	}
	for i := 0; i < n; i++ {
		wg.Add(1)
		go func(i int) {
			defer wg.Done()
			r, ok, crash, se := runOne(i, "")
			results[i] = res{r, ok, crash, se}
		}(i)
	}
	wg.Wait()

	// shards that died with a fatal runtime error are re-run (in parallel) in trace mode, which records the
	// case in flight so that the crash can be attributed to one replayable case
	type rerun struct {
		r      shardResult
		ok     bool
		crash  string
		stderr string
		cur    []byte
	}
	reruns := make([]*rerun, n)
	var wg2 sync.WaitGroup
	for i := range results {
		if results[i].ok || results[i].crash == "hard timeout" {
			continue
		}
		wg2.Add(1)
		go func(i int) {
			defer wg2.Done()
			tp := filepath.Join(work, fmt.Sprintf("trace-%s-%d.txt", ck.ID, i))
			r2, ok2, crash2, se2 := runOne(i, tp)
			cur, _ := os.ReadFile(tp)
			os.Remove(tp)
			reruns[i] = &rerun{r2, ok2, crash2, se2, cur}
		}(i)
	}
	wg2.Wait()

	total := shardResult{Outcomes: map[string]int64{}, SigCount: map[string]int{}, Notes: map[string]interface{}{}}
	exhaustive := true
	var crashes []Violation
	for i, r := range results {
		if !r.ok {
			exhaustive = false
			if r.crash == "hard timeout" {
				fmt.Fprintf(os.Stderr, "check %s: shard %d exceeded the hard time limit and was stopped (no verdict from it)\n", ck.ID, i)
				total.Caps = appendUniq(total.Caps, "a shard exceeded the hard time limit")
				continue
			}
			rr := reruns[i]
			if !rr.ok && strings.Contains(rr.stderr, "verif memory limit exceeded") {
				// the harness's own heap limit: the exploration (its visited-state sets included) outgrew the
				// process; no verdict from this shard
				fmt.Fprintf(os.Stderr, "check %s: shard %d stopped at the harness memory limit (no verdict from it): %s\n", ck.ID, i, firstLine(rr.stderr))
				total.Caps = appendUniq(total.Caps, "a shard stopped at the harness memory limit")
				continue
			}
			if rr.ok {
				// did not recur under trace mode: use the re-run's (complete) result
				fmt.Fprintf(os.Stderr, "check %s: shard %d failed once (%s) and completed on re-run; using the re-run\n", ck.ID, i, r.crash)
				total.Caps = appendUniq(total.Caps, "a shard failed once and was re-run")
				r = res{rr.r, true, "", rr.stderr}
			} else {
				if len(rr.cur) == 0 {
					fmt.Fprintf(os.Stderr, "check %s: shard %d crashed before any case (%s)\n%s\n", ck.ID, i, rr.crash, rr.stderr)
					total.Caps = appendUniq(total.Caps, "a shard crashed outside any case")
					continue
				}
				cj, _ := json.Marshal(map[string]interface{}{"crash_case": string(rr.cur), "stderr": tail(rr.stderr, 1500)})
				crashes = append(crashes, Violation{Property: ck.ID, Signature: "fatal|" + shortHash([]byte(stripDigits(firstLine(rr.stderr)))),
					What: "fatal runtime error (unrecoverable) while executing case " + Q(tail(string(rr.cur), 300)) + ": " + firstLine(rr.stderr), Case: cj})
				continue
			}
		}
		total.Evals += r.r.Evals
		total.States += r.r.States
		total.Transitions += r.r.Transitions
		total.Traces += r.r.Traces
		total.Skipped += r.r.Skipped
		total.Nontrivial += r.r.Nontrivial
		for k, v := range r.r.Outcomes {
			total.Outcomes[k] += v
		}
		for k, v := range r.r.SigCount {
			total.SigCount[k] += v
		}
		for k, v := range r.r.Notes {
			if f, ok := v.(float64); ok {
				if g, ok := total.Notes[k].(float64); ok {
					total.Notes[k] = f + g
					continue
				}
			}
			if _, ok := total.Notes[k]; !ok {
				total.Notes[k] = v
			}
		}
		if len(total.Samples) < 8 && len(r.r.Samples) > 0 {
			total.Samples = append(total.Samples, r.r.Samples[0])
		}
		total.Violations = append(total.Violations, r.r.Violations...)
		for _, cp := range r.r.Caps {
			total.Caps = appendUniq(total.Caps, cp)
			exhaustive = false
		}
		if r.stderr != "" && os.Getenv("VERIF_VERBOSE") != "" {
			fmt.Fprint(os.Stderr, r.stderr)
		}
	}
	if len(total.Samples) == 0 {
		for _, r := range results {
			total.Samples = append(total.Samples, r.r.Samples...)
		}
	}
	if total.Samples == nil {
		total.Samples = []interface{}{}
	}

	if ck.Post != nil {
		pr := ck.Post(work, n)
		total.Violations = append(total.Violations, pr.Violations...)
		total.States += pr.States
		total.Nontrivial += pr.Nontrivial
		for k, v := range pr.Outcomes {
			total.Outcomes[k] += v
		}
		if pr.Incomplete != "" {
			total.Caps = appendUniq(total.Caps, pr.Incomplete)
			exhaustive = false
		}
	}

	// ---- decide ---------------------------------------------------------------
	known := loadKnown()
	isKnown := func(v Violation) *knownFinding {
		for i := range known {
			if known[i].Property == v.Property && known[i].Signature == v.Signature {
				return &known[i]
			}
		}
		return nil
	}
	sort.SliceStable(total.Violations, func(i, j int) bool {
		if total.Violations[i].Signature != total.Violations[j].Signature {
			return total.Violations[i].Signature < total.Violations[j].Signature
		}
		return len(total.Violations[i].Case) < len(total.Violations[j].Case)
	})
	reportedSig := map[string]bool{}
	knownPrinted := map[string]bool{}
	nviol := 0
	replayDir := filepath.Join(VerifDir, "replays")
	if d := os.Getenv("VERIF_REPLAYS"); d != "" {
		replayDir = d
	}
	os.MkdirAll(replayDir, 0o755)
	for _, v := range append(crashes, total.Violations...) {
		if k := isKnown(v); k != nil {
			if !knownPrinted[v.Signature] {
				knownPrinted[v.Signature] = true
				fmt.Printf("KNOWN-FINDING: property=%s %s [%s]\n", v.Property, k.What, v.Signature)
			}
			continue
		}
		if reportedSig[v.Signature] {
			continue
		}
		// confirm: the same case must fail identically 5 times
		if ck.Replay != nil && !strings.HasPrefix(v.Signature, "fatal|") {
			// each confirmation runs in a fresh process, so that process-global state left behind by
			// the library (which some properties forbid) cannot mask or fake a failure
			okAll := true
			cf := filepath.Join(work, "confirm-"+shortHash(v.Case)+".json")
			os.WriteFile(cf, v.Case, 0o644)
			for i := 0; i < 5; i++ {
				cmd := exec.Command(self, "confirm", ck.ID, cf)
				cmd.Env = os.Environ()
				err := cmd.Run()
				ee, isExit := err.(*exec.ExitError)
				// exit 1 = violates; exit 3 = the replay did not return within two minutes, which confirms a
				// violation only for the property that is about returning promptly
				if !(isExit && (ee.ExitCode() == 1 || (ee.ExitCode() == 3 && ck.ID == "C14"))) {
					okAll = false
					break
				}
			}
			os.Remove(cf)
			if !okAll {
				fmt.Fprintf(os.Stderr, "check %s: a reported case did not reproduce on replay; treated as harness nondeterminism, not a violation: %s\n", ck.ID, v.What)
				total.Caps = appendUniq(total.Caps, "a candidate violation did not reproduce on replay")
				exhaustive = false
				continue
			}
		}
		reportedSig[v.Signature] = true
		nviol++
		if nviol > 12 {
			continue
		}
		path := filepath.Join(replayDir, fmt.Sprintf("%s-%s.json", ck.ID, shortHash(append([]byte(v.Signature), v.Case...))))
		b, _ := json.MarshalIndent(v, "", " ")
		os.WriteFile(path, b, 0o644)
		fmt.Printf("VIOLATION property=%s replay=%s\n", v.Property, path)
		fmt.Printf("  signature: %s\n  what: %s\n", v.Signature, v.What)
	}

	// ---- evidence ---------------------------------------------------------------
	cov := map[string]interface{}{
		"evaluations":         total.Evals,
		"distinct_nontrivial": total.Nontrivial,
		"rule":                ck.Rule,
		"samples":             total.Samples,
		"exhaustive":          exhaustive,
		"duplicates_skipped":  total.Skipped,
		"distinct_outcomes":   len(total.Outcomes),
		"outcome_classes":     topOutcomes(total.Outcomes, 40),
		"shards":              n,
	}
	if total.States > 0 {
		cov["states"] = total.States
		cov["transitions"] = total.Transitions
		cov["traces_validated_against_impl"] = total.Traces
	}
	if len(total.Caps) > 0 {
		cov["caps_hit"] = total.Caps
	}
	for k, v := range total.Notes {
		cov[k] = v
	}
	if len(knownPrinted) > 0 {
		ks := []string{}
		for k := range knownPrinted {
			ks = append(ks, k)
		}
		sort.Strings(ks)
		cov["known_findings_seen"] = ks
	}
	seed, _ := strconv.Atoi(os.Getenv("VERIF_SEED"))
	ev := map[string]interface{}{
		"property_id": ck.ID,
		"tier":        tier,
		"seed":        seed,
		"level":       ck.Level,
		"coverage":    cov,
		"assumptions": ck.Assumptions,
		"wall_s":      time.Since(t0).Seconds(),
		"violations":  nviol,
	}
	evDir := filepath.Join(VerifDir, "evidence")
	if d := os.Getenv("VERIF_EVIDENCE"); d != "" {
		evDir = d
	}
	os.MkdirAll(evDir, 0o755)
	b, _ := json.MarshalIndent(ev, "", " ")
	if err := os.WriteFile(filepath.Join(evDir, ck.ID+".json"), b, 0o644); err != nil {
		fmt.Fprintln(os.Stderr, "cannot write evidence:", err)
	}
	fmt.Printf("check %s tier=%s evaluations=%d distinct_nontrivial=%d states=%d transitions=%d outcomes=%d exhaustive=%v violations=%d known=%d wall=%.1fs\n",
		ck.ID, tier, total.Evals, total.Nontrivial, total.States, total.Transitions, len(total.Outcomes), exhaustive, nviol, len(knownPrinted), time.Since(t0).Seconds())
	if os.Getenv("VERIF_WORK") == "" {
		os.RemoveAll(work)
	}
	if nviol > 0 {
		return 1
	}
	return 0
}

func safeReplay(ck *Check, cas json.RawMessage) (bad bool, what string) {
	defer func() {
		if r := recover(); r != nil {
			bad, what = true, fmt.Sprint("panic: ", r)
		}
	}()
	return ck.Replay(cas)
}

// ReplayFile re-executes a recorded violation.
func ReplayFile(checks map[string]*Check, path string) int {
	b, err := os.ReadFile(path)
	if err != nil {
		fmt.Fprintln(os.Stderr, err)
		return 2
	}
	var v Violation
	if err := json.Unmarshal(b, &v); err != nil {
		fmt.Fprintln(os.Stderr, err)
		return 2
	}
	ck := checks[v.Property]
	if ck == nil || ck.Replay == nil {
		fmt.Fprintln(os.Stderr, "no replay for property", v.Property)
		return 2
	}
	bad, what := safeReplay(ck, v.Case)
	if bad {
		fmt.Printf("VIOLATION property=%s replay=%s\n  what: %s\n", v.Property, path, what)
		return 1
	}
	fmt.Printf("replay %s: property %s holds on this case\n", path, v.Property)
	return 0
}

func topOutcomes(m map[string]int64, k int) map[string]int64 {
	type kv struct {
		k string
		v int64
	}
	var a []kv
	for x, y := range m {
		a = append(a, kv{x, y})
	}
	sort.Slice(a, func(i, j int) bool {
		if a[i].v != a[j].v {
			return a[i].v > a[j].v
		}
		return a[i].k < a[j].k
	})
	out := map[string]int64{}
	for i := 0; i < len(a) && i < k; i++ {
		out[a[i].k] = a[i].v
	}
	return out
}

func appendUniq(xs []string, s string) []string {
	for _, x := range xs {
		if x == s {
			return xs
		}
	}
	return append(xs, s)
}

func shortHash(b []byte) string {
	h := sha256.Sum256(b)
	return hex.EncodeToString(h[:6])
}

func tail(s string, n int) string {
	if len(s) > n {
		return s[len(s)-n:]
	}
	return s
}

func firstLine(s string) string {
	for _, l := range strings.Split(s, "\n") {
		if strings.HasPrefix(l, "fatal error") || strings.HasPrefix(l, "panic") || strings.Contains(l, "goroutine stack exceeds") {
			return l
		}
	}
	if i := strings.IndexByte(s, '\n'); i >= 0 {
		return s[:i]
	}
	return s
}

// B64 encodes bytes for case files.
func B64(b []byte) string { return base64.StdEncoding.EncodeToString(b) }

// UnB64 decodes.
func UnB64(s string) []byte {
	b, _ := base64.StdEncoding.DecodeString(s)
	return b
}

// Q quotes a string for human-readable messages.
func Q(s string) string { return strconv.QuoteToASCII(s) }

func stripDigits(s string) string {
	var b strings.Builder
	for _, r := range s {
		if r < '0' || r > '9' {
			b.WriteRune(r)
		}
	}
	return b.String()
}

// Confirm re-executes one case file in this (fresh) process: exit status 1 = violates.
func Confirm(ck *Check, path string) int {
	b, err := os.ReadFile(path)
	if err != nil || ck.Replay == nil {
		return 2
	}
	done := make(chan bool, 1)
	go func() {
		bad, _ := safeReplay(ck, b)
		done <- bad
	}()
	select {
	case bad := <-done:
		if bad {
			return 1
		}
		return 0
	case <-time.After(120 * time.Second):
		return 3 // the replay did not return
	}
}
