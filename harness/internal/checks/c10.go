package checks

import (
	"encoding/json"
	"fmt"
	"strings"

	"github.com/microcosm-cc/bluemonday/css"
	"golang.org/x/net/html"

	"verif/harness/internal/obs"
	"verif/harness/internal/run"
	"verif/harness/internal/spec"
)

// C10 — inline style is filtered declaration by declaration against the CSS allowlist.

func init() {
	register(&run.Check{
		ID:    "C10",
		Level: "model_checking",
		Rule: "bounded-exhaustive: style strings = every sequence of <=3 (thorough 4) declarations over a declaration alphabet (allowed property with accepted / rejected value, disallowed property, vendor prefix, upper case, !important, comments, strings and url() containing ; and :, malformed tails, " +
			"and an escape alphabet: \\72 ed, r\\65 d, r\\20 ed, \\000072ed, \\1F600, \\d800, \\5c 72, \\75rl(, trailing \\) joined by ';' / '; ', on four element classes, crossed with rule sets {global | element | element-pattern | two overlapping patterns} x {handler | enum | strict regexp | lenient regexp (accepts the empty string) | default handler | unknown property without matcher} x style attribute allowed or not through AllowAttrs, plus enum entries and property names spelled in mixed case; the element class varies fastest so that consecutive calls on one policy object mix classes. " +
			"Oracle (soundness): the output style is split into declarations the way a browser does (quote / paren / escape aware, an unquoted url token - well formed or bad - ending at its first unescaped ')'); each property, ASCII-lower-cased and de-prefixed, must be allowlisted for the element and lower(css-decode(value)) must be accepted by a matcher registered for it. " +
			"Oracle (completeness, escape-free cleanly parseable inputs only): the surviving declarations are exactly the allowed ones in input order, an all-rejected style leaves no style attribute; the same for every sequence <=2 of clean declarations written with CSS white space before it and after its final ';'. non-trivial = at least one declaration was removed.",
		Assumptions: []string{
			"CSS escapes are decoded per css-syntax-3 §4.3.7 by the harness's own decoder",
			"default handlers are taken from css.GetDefaultHandler (their own soundness is C18's subject)",
			"soundness uses the union of element, element-pattern and global style rules; completeness uses the documented precedence (explicit element rules shadow pattern rules)",
		},
		QuickBudget: 50, ThoroughBudget: 800,
		Run:    runC10,
		Replay: replayC10,
	})
}

var cssPrefixes = []string{"-webkit-", "-moz-", "-ms-", "-o-", "mso-", "-xv-", "-atsc-", "-wap-", "-khtml-", "prince-", "-ah-", "-hp-", "-ro-", "-rim-", "-tc-"}

type cssDecl struct{ prop, val string }

// splitStyle splits a style attribute value into declarations the way a CSS
// parser does: ';' separates declarations only at top level (outside strings,
// url(), parentheses / brackets / braces, comments and escapes); the first
// top-level ':' separates property from value.
// urlTokenEnd: s[i] is '('. If the identifier before it reads "url" (escapes decoded, ASCII case-insensitive) and
// the argument does not begin with a quote, the text from here is a url token for a browser (CSS Syntax 4.3.6); the
// index just after its closing ')' (or len(s)) is returned.
func urlTokenEnd(s string, i int) (int, bool) {
	b := i
	for b > 0 {
		c := s[b-1]
		if c >= 'a' && c <= 'z' || c >= 'A' && c <= 'Z' || c >= '0' && c <= '9' || c == '-' || c == '_' || c == '\\' || c >= 0x80 {
			b--
			continue
		}
		// the white space that ends a hex escape belongs to the identifier
		if (c == ' ' || c == '\t' || c == '\n') && b >= 2 && isHexByte(s[b-2]) {
			k := b - 2
			for k > 0 && isHexByte(s[k-1]) && b-2-k < 5 {
				k--
			}
			if k > 0 && s[k-1] == '\\' {
				b = k - 1
				continue
			}
		}
		break
	}
	// "<!--" is a token of its own (CDO): the identifier begins after it
	if b >= 2 && s[b-2:b] == "<!" && strings.HasPrefix(s[b:i], "--") {
		b += 2
	}
	// after '#' or '@' the name belongs to a hash token / at-keyword, and the '(' opens a plain block
	if b > 0 && (s[b-1] == '#' || s[b-1] == '@') {
		return 0, false
	}
	if obs.ASCIILower(obs.CSSDecode(s[b:i])) != "url" {
		return 0, false
	}
	j := i + 1
	for j < len(s) && (s[j] == ' ' || s[j] == '\t' || s[j] == '\n' || s[j] == '\r' || s[j] == '\f') {
		j++
	}
	if j < len(s) && (s[j] == '"' || s[j] == '\'') {
		return 0, false // url( + string: an ordinary function
	}
	for j < len(s) {
		switch s[j] {
		case ')':
			return j + 1, true
		case '\\':
			j++
		}
		j++
	}
	return len(s), true
}

func isHexByte(c byte) bool {
	return c >= '0' && c <= '9' || c >= 'a' && c <= 'f' || c >= 'A' && c <= 'F'
}

func splitStyle(s string) (decls []cssDecl, garbage []string) {
	var chunks []string
	var open []byte // expected closers of the blocks that are open
	start := 0
	i := 0
	for i < len(s) {
		ch := s[i]
		switch {
		case ch == '\\':
			i += 2
			continue
		case ch == '"' || ch == '\'':
			q := ch
			i++
			for i < len(s) && s[i] != q {
				if s[i] == '\\' {
					i++
				}
				if i < len(s) && s[i] == '\n' {
					break // unterminated string ends at newline
				}
				i++
			}
			i++
			continue
		case ch == '/' && i+1 < len(s) && s[i+1] == '*':
			j := strings.Index(s[i+2:], "*/")
			if j < 0 {
				i = len(s)
			} else {
				i += j + 4
			}
			continue
		case ch == '(':
			if j, isURL := urlTokenEnd(s, i); isURL {
				// an unquoted url( token (well formed or bad) ends at its first unescaped ')': quotes, comment
				// marks and brackets inside it mean nothing
				i = j
				continue
			}
			open = append(open, ')')
		case ch == '[':
			open = append(open, ']')
		case ch == '{':
			open = append(open, '}')
		case ch == ')' || ch == ']' || ch == '}':
			if len(open) > 0 && open[len(open)-1] == ch {
				open = open[:len(open)-1]
			}
		case ch == ';' && len(open) == 0:
			chunks = append(chunks, s[start:i])
			start = i + 1
		}
		i++
	}
	if start < len(s) {
		chunks = append(chunks, s[start:])
	}
	for _, c := range chunks {
		t := strings.TrimSpace(c)
		if t == "" {
			continue
		}
		// first top-level ':'
		k := -1
		d := 0
		for j := 0; j < len(t); j++ {
			switch t[j] {
			case '\\':
				j++
			case '(':
				d++
			case ')':
				if d > 0 {
					d--
				}
			case ':':
				if d == 0 && k < 0 {
					k = j
				}
			}
			if k >= 0 {
				break
			}
		}
		if k < 0 {
			garbage = append(garbage, t)
			continue
		}
		decls = append(decls, cssDecl{strings.TrimSpace(t[:k]), strings.TrimSpace(t[k+1:])})
	}
	return
}

func dePrefix(prop string) string {
	p := obs.ASCIILower(prop)
	for _, pre := range cssPrefixes {
		p = strings.TrimPrefix(p, pre)
	}
	return p
}

// stripImportant takes one trailing "!important" (ASCII case-insensitive, white space allowed around the "!") off a
// declaration value, as a browser does before it reads the value.
func stripImportant(v string) string {
	t := strings.TrimRight(v, " \t\n\r\f")
	l := obs.ASCIILower(t)
	if !strings.HasSuffix(l, "important") {
		return v
	}
	t = strings.TrimRight(t[:len(t)-len("important")], " \t\n\r\f")
	if !strings.HasSuffix(t, "!") || strings.HasSuffix(t, "\\!") {
		return v
	}
	return strings.TrimRight(t[:len(t)-1], " \t\n\r\f")
}

func styleRuleAccepts(r spec.StyleRule, val string) bool {
	switch {
	case r.Handler != nil:
		return r.Handler(val)
	case len(r.Enum) > 0:
		for _, e := range r.Enum {
			if obs.ASCIILower(e) == val {
				return true
			}
		}
		return false
	case r.Re != nil:
		return r.Re.MatchString(val)
	case r.Default != "":
		return css.GetDefaultHandler(r.Default)(val)
	}
	return false
}

// judgeStyleValue: soundness of one output style attribute on element el.
func judgeStyleValue(v *spec.View, el, style string) (sig, what string) {
	decls, garbage := splitStyle(style)
	if len(garbage) > 0 {
		return "garbage", "output style contains a chunk that is not a declaration: " + run.Q(garbage[0])
	}
	if len(decls) == 0 {
		return "empty-style", "style attribute with nothing left was not removed"
	}
	for _, d := range decls {
		prop := dePrefix(obs.CSSDecode(d.prop))
		rules := v.StyleRules(el, prop)
		// a rule registered under a name that itself carries a vendor prefix covers exactly that name
		if full := obs.ASCIILower(obs.CSSDecode(d.prop)); full != prop {
			rules = append(rules, v.StyleRules(el, full)...)
		}
		if len(rules) == 0 {
			return "property", fmt.Sprintf("declaration %s kept on <%s> although property %q is not allowlisted", run.Q(d.prop+": "+d.val), el, prop)
		}
		val := obs.ASCIILower(obs.CSSDecode(stripImportant(d.val)))
		ok := false
		for _, r := range rules {
			if styleRuleAccepts(r, val) {
				ok = true
				break
			}
		}
		if !ok {
			cls := "value"
			if strings.Contains(d.val, "\\") {
				cls = "value-escape|" + d.prop + ": " + d.val
			}
			return cls, fmt.Sprintf("declaration %s kept on <%s> although no matcher for %q accepts the value a browser reads (%s)", run.Q(d.prop+": "+d.val), el, prop, run.Q(val))
		}
	}
	return "", ""
}

// expectedStyle computes, for an escape-free cleanly parseable declaration
// list, the exact surviving style ("" = attribute removed).
func expectedStyle(v *spec.View, el string, decls []cssDecl) string {
	var keep []string
	for _, d := range decls {
		prop := dePrefix(d.prop)
		var rules []spec.StyleRule
		if len(v.ElemStyle[el]) > 0 {
			rules = append(rules, v.ElemStyle[el][prop]...)
		} else {
			for _, ps := range v.PatStyle {
				if ps.Re.MatchString(el) {
					rules = append(rules, ps.Styles[prop]...)
				}
			}
		}
		rules = append(rules, v.GlobStyle[prop]...)
		if full := obs.ASCIILower(d.prop); full != prop {
			if len(v.ElemStyle[el]) > 0 {
				rules = append(rules, v.ElemStyle[el][full]...)
			} else {
				for _, ps := range v.PatStyle {
					if ps.Re.MatchString(el) {
						rules = append(rules, ps.Styles[full]...)
					}
				}
			}
			rules = append(rules, v.GlobStyle[full]...)
		}
		val := obs.ASCIILower(stripImportant(d.val))
		for _, r := range rules {
			if styleRuleAccepts(r, val) {
				keep = append(keep, d.prop+": "+d.val)
				break
			}
		}
	}
	return strings.Join(keep, "; ")
}

type declFrag struct {
	text  string
	clean bool // escape-free, comment-free, well-formed "prop: value"
	prop  string
	val   string
}

func df(prop, val string) declFrag {
	return declFrag{text: prop + ": " + val, clean: true, prop: prop, val: val}
}
func dirty(text string) declFrag { return declFrag{text: text} }

var c10Decls = []declFrag{
	df("color", "red"), df("color", "blue"), df("COLOR", "RED"), df("background", "red"), df("foo-bar", "x"),
	df("text-align", "center"), df("-webkit-color", "green"), df("width", "1px"), df("width", "3px"), df("font-family", "arial"),
	df("color", "url(javascript:x)"), df("mso-color", "red"), df("color", "red !important"), df("width", "1px !important"), df("color", "purple !important"),
	dirty(`color: red !important`), dirty(`color: r\65 d`), dirty(`color: \72 ed`), dirty(`color: r\20 ed`), dirty(`color: \000072ed`),
	dirty(`font-family: \1F600 expression(alert(1))`), dirty(`font-family: a\d800 b`), dirty(`color: \5c 72 ed`), dirty(`color: \75rl(javascript:x)`),
	dirty(`color: red /* c */`), dirty(`/* c */`), dirty(`content: "a;b"`), dirty(`color: url(a;b)`), dirty(`color`), dirty(`: red`),
	dirty(`color: red: blue`), dirty(`color: \`), dirty(`color: \red`), dirty(`color: re\d`), dirty(`c\6flor: red`), dirty(`color: red\9`),
	dirty(`}position: fixed`), dirty(`{}color: red`), dirty(`/**/ }`), dirty(` `), dirty(`color: red\ `), dirty("color: red\\\t"),
	dirty("color: \\72  ed"), dirty("color: r\\65\t\td"), dirty("color: \\72\n\ned"),
	dirty(`font-family: x\\\ `), dirty(`color: \ `), dirty(`color: red\21 important`), dirty(`color: red ! important`), dirty(`color: red !important !important`),
	dirty(`background: u\rl(x)`), dirty(`background: \55rl(x)`), dirty(`color: EXPRESSION(x)`), dirty(`font-family: a(/*)*/`), dirty(`font-family: a/*(*/`),
	dirty(`font-family: [a(b]c)`), dirty(`font-family: 'it\'s'`), dirty(`font-family: "a\"b" x`),
	dirty(`color: a(`), dirty(`color: b)`), dirty(`font-family: [x`), dirty(`font-family: "a`), dirty(`color: rgb(1`),
	dirty(`font-family: \110000 x`), dirty(`font-family: \0 `), dirty(`color:red`), dirty(`color : red`), dirty(`color: "red"`),
	// a url token that a quote, a comment mark or a blank turns into a bad-url: for a browser it ends at the first ')'
	dirty(`background: url(x");position:fixed;top:0;x:")`), dirty(`background: url(x ');position:fixed;x:')`),
	dirty(`background: url(x /*);position:fixed;x:*/)`), dirty(`background: u\72l(x");position:fixed;x:")`),
	dirty(`background: /* a */ url(x) /* b */ red`), dirty(`color: /* a */ red`),
	dirty(`color: URL(/*);position:fixed;top:0;*/`), dirty(`color: <!--url(a");position:fixed;top:0;")`), dirty("color: \\\nurl(a\");position:fixed;top:0;\")"),
	dirty(`color: #url([); width: 1px`), dirty(`color: x(a;b)`), dirty(`color: a -->url(x)`),
	dirty(`background: url(a.png)`), dirty(`background: url( "a;b" )`), dirty(`background: url(a\)b)`), dirty(`background: url(a b)`), dirty(`background: url(a(b)`),
	// letters that only Unicode case folding maps onto ASCII ones (U+212A Kelvin sign, U+017F long s)
	dirty("bac\u212aground: red"), dirty("color: blac\u212a"), dirty("color: \u017folid"), dirty("font-family: blac\u212a"), dirty("font-family: \u017folid"),
}

func c10Specs() []built {
	type mk struct {
		name string
		c    C
	}
	matchers := []mk{
		{"handler", C{Op: "AllowStyles", Names: []string{"color", "Font-Family"}, Handler: "is-red"}},
		{"enum", C{Op: "AllowStyles", Names: []string{"color"}, Enum: []string{"red", "green"}}},
		{"re-strict", C{Op: "AllowStyles", Names: []string{"color"}, Re: `^(red|green)$`}},
		{"re-lenient", C{Op: "AllowStyles", Names: []string{"color", "font-family"}, Re: `^[a-z ]*$`}},
		{"default", C{Op: "AllowStyles", Names: []string{"color", "font-family", "text-align", "foo-bar", "width"}}},
	}
	scopes := []string{"global", "on", "matching", "two-patterns"}
	var out []spec.Spec
	for _, m := range matchers {
		for _, sc := range scopes {
			for st := 0; st < 2; st++ {
				calls := []C{els("p", "span", "b"), {Op: "AllowElementsMatching", Re: reMy}, attrsGlob([]string{"id"}, "")}
				c1 := m.c
				c2 := C{Op: "AllowStyles", Names: []string{"foo-bar"}}
				switch sc {
				case "global":
					c1.Scope, c2.Scope = "global", "global"
					calls = append(calls, c1, c2)
				case "on":
					c1.Scope, c1.On = "on", []string{"p", "my-x"}
					c2.Scope, c2.On = "on", []string{"p"}
					calls = append(calls, c1, c2)
				case "matching":
					c1.Scope, c1.OnRe = "matching", `^(p|my-[a-z]+)$`
					c2.Scope, c2.OnRe = "matching", `^(p|my-[a-z]+)$`
					calls = append(calls, c1, c2)
				case "two-patterns":
					c1.Scope, c1.OnRe = "matching", reMy
					c3 := C{Op: "AllowStyles", Names: []string{"color"}, Enum: []string{"blue"}, Scope: "matching", OnRe: reMyX}
					c4 := C{Op: "AllowStyles", Names: []string{"width"}, Enum: []string{"1px"}, Scope: "global"}
					calls = append(calls, c1, c3, c4)
				}
				if st == 1 {
					calls = append(calls, attrsGlob([]string{"style"}, ""))
				}
				out = append(out, spec.Spec{Name: fmt.Sprintf("c10-%s-%s-style%d", m.name, sc, st), Base: "new", Calls: calls})
			}
		}
	}
	out = append(out, specByName("styles"),
		spec.Spec{Name: "c10-overlap", Base: "new", Calls: []C{els("p", "span"),
			{Op: "AllowStyles", Names: []string{"color"}, Handler: "is-red", Scope: "global"},
			{Op: "AllowStyles", Names: []string{"color"}, Enum: []string{"blue"}, Scope: "on", On: []string{"p"}},
			{Op: "AllowStyles", Names: []string{"color"}, Re: `^(green)$`, Scope: "on", On: []string{"p"}},
		}},
		// a value pattern that lets backslashes, quotes and upper case through (what is written back must still be what
		// was judged)
		spec.Spec{Name: "c10-re-permissive", Base: "new", Calls: []C{els("p", "span"), {Op: "AllowElementsMatching", Re: reMy},
			{Op: "AllowStyles", Names: []string{"color", "font-family"}, Re: `^[a-zA-Z0-9\\ ,'"#()\[\]-]*$`, Scope: "global"},
			{Op: "AllowStyles", Names: []string{"width"}, Re: `^[A-Za-z0-9\\ ]+$`, Scope: "on", On: []string{"p"}}}},
		// a matcher that accepts everything except some constructs: what it judges must be what a browser reads
		spec.Spec{Name: "c10-excluding-handler", Base: "new", Calls: []C{els("p", "span"), {Op: "AllowElementsMatching", Re: reMy},
			{Op: "AllowStyles", Names: []string{"color", "font-family", "background"}, Handler: "no-url", Scope: "global"}}},
		// rules registered under names that carry a vendor prefix themselves
		spec.Spec{Name: "c10-prefixed-rule-key", Base: "new", Calls: []C{els("p", "span"), {Op: "AllowElementsMatching", Re: reMy},
			{Op: "AllowStyles", Names: []string{"-webkit-color", "mso-color"}, Enum: []string{"green", "red"}, Scope: "global"},
			{Op: "AllowStyles", Names: []string{"-webkit-color"}, Enum: []string{"blue"}, Scope: "on", On: []string{"p"}}}},
		// a handler that accepts everything: what survives must still be, for a browser, only the declarations it judged
		spec.Spec{Name: "c10-accept-all-handler", Base: "new", Calls: []C{els("p", "span"), {Op: "AllowElementsMatching", Re: reMy},
			{Op: "AllowStyles", Names: []string{"color", "font-family", "background"}, Handler: "always", Scope: "global"}}},
		// matchers whose accepted words contain k and s (Unicode case folding must not widen them)
		spec.Spec{Name: "c10-fold-ks", Base: "new", Calls: []C{els("p", "span"), {Op: "AllowElementsMatching", Re: reMy},
			{Op: "AllowStyles", Names: []string{"color"}, Enum: []string{"black", "solid"}, Scope: "global"},
			{Op: "AllowStyles", Names: []string{"font-family"}, Re: `^(black|solid)$`, Scope: "global"},
			{Op: "AllowStyles", Names: []string{"background"}, Handler: "is-red", Scope: "global"}}},
		// enum entries and property names spelled with upper-case letters by the caller
		spec.Spec{Name: "c10-enum-mixed-case", Base: "new", Calls: []C{els("p", "span"), {Op: "AllowElementsMatching", Re: reMy},
			{Op: "AllowStyles", Names: []string{"Color", "FONT-family"}, Enum: []string{"Red", "GREEN", "Arial"}, Scope: "global"},
			{Op: "AllowStyles", Names: []string{"WIDTH"}, Enum: []string{"1PX"}, Scope: "on", On: []string{"P"}},
		}})
	return buildAll(out)
}

// c10Heads / c10Tails: CSS white space before the first and after the last declaration of a style attribute.
var c10Heads = []string{"", "\n", " \t"}
var c10Tails = []string{"", ";", ";\n", ";\t", ";\r\n", ";\f", " ;", "; ", ";\n  "}

var c10Elements = []string{"p", "span", "my-x", "my-y"}

func judgeC10(b *built, el string, frs []declFrag, sep string, in, out string) (sig, what string, removed bool) {
	v := b.V
	// find the style attribute(s) in the output
	var styles []string
	tagSeen := false
	for _, t := range obs.Retok(out) {
		if t.Type == html.StartTagToken && t.Name == el {
			tagSeen = true
			for _, a := range t.Attr {
				if a.Key == "style" {
					styles = append(styles, a.Val)
				}
			}
		}
	}
	governed := v.StyleGoverned(el)
	if !governed {
		return "", "", false
	}
	for _, st := range styles {
		if s, w := judgeStyleValue(v, el, st); s != "" {
			return s, w, true
		}
	}
	// completeness on cleanly parseable inputs
	if frs == nil {
		return "", "", false
	}
	clean := true
	var decls []cssDecl
	for _, f := range frs {
		if !f.clean {
			clean = false
			break
		}
		decls = append(decls, cssDecl{f.prop, f.val})
	}
	if !clean || !tagSeen && !v.ElementAllowed(el) {
		return "", "", len(styles) == 0
	}
	exp := expectedStyle(v, el, decls)
	got := ""
	if len(styles) > 0 {
		got = styles[0]
	}
	removed = len(strings.Split(exp, ";")) < len(decls) || exp == ""
	if len(decls) == 0 {
		return "", "", false
	}
	sameDecls := func(a, b string) bool {
		da, ga := splitStyle(a)
		db, gb := splitStyle(b)
		if len(ga) > 0 || len(gb) > 0 || len(da) != len(db) {
			return false
		}
		for i := range da {
			if da[i] != db[i] {
				return false
			}
		}
		return true
	}
	// the statement fixes which declarations survive and their order, not the separator between them
	if got != exp && !sameDecls(got, exp) {
		cls := "completeness"
		if exp == "" {
			cls = "completeness|should-be-removed"
		} else if got == "" {
			cls = "completeness|lost"
		}
		return cls, fmt.Sprintf("cleanly parseable style: expected surviving declarations %s, got %s", run.Q(exp), run.Q(got)), removed
	}
	return "", "", removed
}

type c10Extra struct {
	El   string `json:"el"`
	Idx  []int  `json:"idx"`
	Sep  string `json:"sep"`
	Self bool   `json:"self"`
}

func c10Doc(el string, idx []int, sep string) (string, []declFrag) {
	var parts []string
	var frs []declFrag
	for _, i := range idx {
		parts = append(parts, c10Decls[i].text)
		frs = append(frs, c10Decls[i])
	}
	style := strings.Join(parts, sep)
	return "<" + el + " id=a style=" + htmlAttrQuote(strings.ReplaceAll(style, "&", "&amp;")) + ">t</" + el + ">", frs
}

func runC10(c *run.Ctx) {
	bs := c10Specs()
	texts := make([]string, len(c10Decls))
	for i, d := range c10Decls {
		texts[i] = d.text + ";"
	}
	// white space around a cleanly parseable style (a style attribute written on several lines): every sequence of <=2
	// clean declarations with a head and a tail of CSS white space; the surviving declarations are the same as without
	var cleanIdx []int
	for i, d := range c10Decls {
		if d.clean {
			cleanIdx = append(cleanIdx, i)
		}
	}
	for hi, head := range c10Heads {
		for ti, tail := range c10Tails {
			for _, i := range cleanIdx {
				for _, j := range append([]int{-1}, cleanIdx...) {
					idx := []int{i}
					if j >= 0 {
						idx = append(idx, j)
					}
					if !c.Own([]byte("c10ws"), []byte(fmt.Sprint(hi, ti, idx))) {
						continue
					}
					for _, el := range c10Elements[:2] {
						_, frs := c10Doc(el, idx, ";\n")
						var parts []string
						for _, f := range frs {
							parts = append(parts, f.text)
						}
						style := head + strings.Join(parts, ";\n") + tail
						doc := "<" + el + " id=a style=" + htmlAttrQuote(style) + ">t</" + el + ">"
						c.States++
						for bi := range bs {
							b := &bs[bi]
							out, pm := San(b.P, doc)
							c.Eval()
							c.Transitions++
							ex, _ := json.Marshal(c10Extra{El: el, Idx: idx, Sep: ";\n"})
							cs := mkCase(b.S, []byte(doc))
							cs.Extra = ex
							if pm != "" {
								c.Violate("panic", "Sanitize panicked: "+pm, cs)
								continue
							}
							sig, what, _ := judgeC10(b, el, frs, ";\n", doc, out)
							if sig != "" {
								c.Violate(sig+"|white-space", fmt.Sprintf("%s; policy=%s input=%s output=%s", what, b.S.Name, run.Q(doc), run.Q(out)), cs)
								c.Outcome("violation|" + sig)
							}
						}
					}
				}
			}
		}
	}
	k := 3
	if !c.Quick() {
		k = 4
	}
	// (the element varies fastest, so that consecutive calls on one policy object mix element classes: state that one
	// call leaves behind in the policy then shows on the next element within a few calls)
	for _, sep := range []string{"; ", ";"} {
		kk := k
		if sep == ";" {
			kk = k - 1
		}
		SeqsS(c, "c10"+sep, texts, 0, kk, func(_ []byte, idx []int) {
			for _, el := range c10Elements {
				doc, frs := c10Doc(el, idx, sep)
				c.States++
				set := bs
				if len(idx) == k {
					// deepest layer: one scope per matcher kind plus the named ones
					set = nil
					for i := range bs {
						// (generated scope x matcher rule sets on a ninth of the documents each, the named ones on a third)
						gen := strings.Contains(bs[i].S.Name, "-style")
						if gen && (i+len(doc))%9 == 0 || !gen && (i+len(doc))%3 == 0 {
							set = append(set, bs[i])
						}
					}
				}
				for i := range set {
					b := &set[i]
					c.Trace(func() string { return b.S.String() + "\n" + run.Q(doc) })
					out, pm := San(b.P, doc)
					c.Eval()
					c.Transitions++
					c.Traces++
					ex, _ := json.Marshal(c10Extra{El: el, Idx: append([]int{}, idx...), Sep: sep})
					if pm != "" {
						cs := mkCase(b.S, []byte(doc))
						cs.Extra = ex
						c.Violate("panic", "Sanitize panicked: "+pm, cs)
						continue
					}
					sig, what, removed := judgeC10(b, el, frs, sep, doc, out)
					if removed {
						c.Nontrivial([]byte(b.S.Name), []byte(doc))
					}
					if sig != "" {
						cs := mkCase(b.S, []byte(doc))
						cs.Extra = ex
						c.Violate(sig, fmt.Sprintf("%s; policy=%s input=%s output=%s", what, b.S.Name, run.Q(doc), run.Q(out)), cs)
						c.Outcome("violation|" + sig)
						continue
					}
					switch {
					case !strings.Contains(out, "style="):
						c.Outcome("style-removed")
					case removed:
						c.Outcome("style-filtered")
						if c.WantSample() && len(idx) >= 2 {
							c.Sample(map[string]string{"policy": b.S.Name, "input": doc, "output": out})
						}
					default:
						c.Outcome("style-kept")
					}
				}
			}
		})
	}
	if c.Shard == 0 {
		c.Notes["policies"] = float64(len(bs))
		c.Notes["declaration_alphabet"] = float64(len(c10Decls))
	}
}

func replayC10(raw json.RawMessage) (bool, string) {
	cs, in := parseCase(raw)
	b := build(cs.Spec)
	var ex c10Extra
	json.Unmarshal(cs.Extra, &ex)
	out, pm := San(b.P, string(in))
	if pm != "" {
		return true, "panic: " + pm
	}
	var frs []declFrag
	for _, i := range ex.Idx {
		if i >= 0 && i < len(c10Decls) {
			frs = append(frs, c10Decls[i])
		}
	}
	if len(ex.Idx) == 0 {
		frs = nil
	}
	sig, what, _ := judgeC10(&b, ex.El, frs, ex.Sep, string(in), out)
	return sig != "", what + " output=" + run.Q(out)
}
