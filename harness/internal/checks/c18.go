package checks

import (
	"encoding/json"
	"fmt"
	"go/ast"
	"go/parser"
	"go/token"
	"os"
	"sort"
	"strconv"
	"strings"

	"github.com/microcosm-cc/bluemonday/css"
	"golang.org/x/net/html"

	"verif/harness/internal/obs"
	"verif/harness/internal/run"
	"verif/harness/internal/spec"
)

// C18 — default CSS value handlers accept only inert, whole values.

func init() {
	register(&run.Check{
		ID:    "C18",
		Level: "model_checking",
		Rule: "bounded-exhaustive, for each registered property handler: good values = every single token of a pool (every string literal of css/handlers.go plus ~120 numeric / functional forms) the handler accepts, and every sequence of 2 (thorough 3) tokens from a representative sub-pool joined by ' ', ',', '/', ' / ' that the handler accepts; " +
			"for every good value, every hostile fragment (url(javascript:..), url(data:..), url(//host), url(ftp://..), expression(), javascript:, data:, a backslash, \\75rl(, <, >, </style>, @import) inserted at every byte position, glued at both ends with and without separator, and (single-character fragments) substituted for every byte. " +
			"Oracle: the handler rejects every such candidate (an independent scanner confirms each candidate contains a hostile construct); the handler for an unknown property rejects the whole pool, and ~60 names one edit away from each known property reject that property's values; end to end, Policy.Sanitize with default handlers keeps the good values and removes a one-per-position subset of the candidates. " +
			"non-trivial = distinct (property, candidate) pairs built from a good value of at least two characters.",
		Assumptions: []string{"'hostile' is decided by the scanner in internal/checks/c18.go: expression(, javascript:, data:, backslash, angle bracket, at-keyword, or a url() whose argument does not start with http: / https:"},
		QuickBudget: 50, ThoroughBudget: 800,
		Run:    runC18,
		Replay: replayC18,
	})
}

const cssPropNames = `align-content align-items align-self all animation animation-delay animation-direction animation-duration animation-fill-mode animation-iteration-count animation-name animation-play-state animation-timing-function backface-visibility background background-attachment background-blend-mode background-clip background-color background-image background-origin background-position background-repeat background-size border border-bottom border-bottom-color border-bottom-left-radius border-bottom-right-radius border-bottom-style border-bottom-width border-collapse border-color border-image border-image-outset border-image-repeat border-image-slice border-image-source border-image-width border-left border-left-color border-left-style border-left-width border-radius border-right border-right-color border-right-style border-right-width border-spacing border-style border-top border-top-color border-top-left-radius border-top-right-radius border-top-style border-top-width border-width bottom box-decoration-break box-shadow box-sizing break-after break-before break-inside caption-side caret-color clear clip color column-count column-fill column-gap column-rule column-rule-color column-rule-style column-rule-width column-span column-width columns cursor direction display empty-cells filter flex flex-basis flex-direction flex-flow flex-grow flex-shrink flex-wrap float font font-family font-kerning font-language-override font-size font-size-adjust font-stretch font-style font-synthesis font-variant font-variant-caps font-variant-position font-weight grid grid-area grid-auto-columns grid-auto-flow grid-auto-rows grid-column grid-column-end grid-column-gap grid-column-start grid-gap grid-row grid-row-end grid-row-gap grid-row-start grid-template grid-template-areas grid-template-columns grid-template-rows hanging-punctuation height hyphens image-rendering isolation justify-content left letter-spacing line-break line-height list-style list-style-image list-style-position list-style-type margin margin-bottom margin-left margin-right margin-top max-height max-width min-height min-width mix-blend-mode object-fit object-position opacity order orphans outline outline-color outline-offset outline-style outline-width overflow overflow-wrap overflow-x overflow-y padding padding-bottom padding-left padding-right padding-top page-break-after page-break-before page-break-inside perspective perspective-origin pointer-events position quotes resize right scroll-behavior tab-size table-layout text-align text-align-last text-combine-upright text-decoration text-decoration-color text-decoration-line text-decoration-style text-indent text-justify text-orientation text-overflow text-shadow text-transform top transform transform-origin transform-style transition transition-delay transition-duration transition-property transition-timing-function unicode-bidi user-select vertical-align visibility white-space widows width word-break word-spacing word-wrap writing-mode z-index`

var cssExtraPool = []string{
	"0", "1", "2", "4", "0.5", "1.0", "0.25", ".5", "10", "100", "400", "360", "-1", "1.5",
	"10px", "-10px", "1.5em", "2rem", "50%", "100%", "0px", "1cm", "3pt", "10vw", "1in", "5ch",
	"1s", "200ms", "-1s", "0.3s", "45deg", "1turn", "90",
	"#fff", "#ffff", "#ffffff", "#ffffff80", "rgb(1,2,3)", "rgb(10%, 20%, 30%)", "rgba(1,2,3,0.5)", "rgba(1, 2, 3, 1)", "hsl(120,50%,50%)", "hsl(120, 50%, 50%)", "hsla(120,50%,50%,0.3)",
	"url(http://example.com/a.png)", "url('https://example.com/a.png')", "url(\"http://example.com/a.png\")", "url(https://e.x/a_b/c.gif)",
	"cubic-bezier(0.1,0.7,1.0,0.1)", "cubic-bezier(0,0,1,1)", "cubic-bezier(0.5, 0.5, 0.5, 1)", "steps(4,end)", "steps(2, start)", "steps(3,)",
	"blur(5px)", "brightness(50%)", "contrast(150%)", "drop-shadow(1px 1px 2px red)", "drop-shadow(1px 1px)", "drop-shadow(8px 8px 10px gray)", "grayscale(50%)", "hue-rotate(90)", "hue-rotate()",
	"invert(50%)", "opacity(50%)", "saturate(30%)", "sepia(60%)",
	"matrix(1,0,0,1,0,0)", "matrix(1, 0, 0, 1, 0, 0)", "matrix3d(1,0,0,0,0,1,0,0,0,0,1,0,0,0,0,1)", "translate(10px,20px)", "translate(10px)", "translatex(5px)", "translate3d(1px,2px,3px)",
	"scale(2)", "scale(2,3)", "scalex(2)", "rotate(360)", "rotate(1)", "rotatex(2)", "rotate()", "rotate3d(1,1,1,360)", "rotate3d(0.5,0.5,0.5,1)", "skew(10deg)", "skewx(10deg)", "skew(10deg,20deg)",
	"perspective(100px)", "rect(1px,2px,3px,4px)", "rect(1px, 2px, 3px, 4px)", "span 2", "digits 2", "digits 4",
	"'a'", "\"a\"", "'abc'", "'«' '»'", "'\"' '\"'", "\"'\" \"'\"", "'‹' '›' '«' '»'",
	"arial", "'times new roman'", "times new roman", "sans-serif", "arial, sans-serif", "verdana,arial",
	"left top", "center center", "right bottom", "row dense", "column dense", "10px 20px", "10 20", "1px 2px", "50% 50%", "-1px -2px",
	"color", "width, height", "opacity", "all", "none", "auto", "initial", "inherit", "unset", "normal", "red", "transparent", "blue",
	"'header header'", "\"a b\"", "a b", "myanim", "fadein", "en", "zz",
	"underline overline", "line-through", "1 / 2", "1 / 3 / 2 / 4", "span 2 / 3", "auto / auto",
}

var hostileFrags = []string{
	"url(javascript:alert(1))", "url(data:text/html,x)", "url(//e.example/x)", "url(ftp://e/x)", "expression(alert(1))",
	"javascript:alert(1)", "data:text/html,x", "\\", "\\75rl(", "<", ">", "</style>", "@import", "@",
	// hostile constructs wrapped in function notation (a handler that learns calc() / var() / min() must not take these)
	"calc(expression(alert(1)))", "calc(url(//e.example/x))", "calc(100% - url(javascript:x))", "var(--x, url(//e.example/x))", "min(1px, expression(alert(1)))",
	// url() arguments that merely begin with the letters http
	"url(httpx://e.x/a)", "url(httpdata:x)", "url(http:javascript:x)", "url(https:e.x/a)",
	// an escaped quote at the start of an unquoted url is part of the URL for a browser (a relative reference), the
	// opening quote of a string for whoever judges the decoded text
	`url(\22http://../../../logout)`, `url(\27http://../x)`, `url(\"http://../x)`, `u\72l(\22 http://../x)`,
}

// containsHostile is the independent scanner for the constructs the property names.
func containsHostile(v string) bool {
	l := strings.ToLower(v)
	if strings.Contains(l, "expression(") || strings.Contains(l, "javascript:") || strings.Contains(l, "data:") ||
		strings.ContainsAny(l, "\\<>@") {
		return true
	}
	rest := l
	for {
		i := strings.Index(rest, "url(")
		if i < 0 {
			return false
		}
		arg := rest[i+4:]
		if j := strings.IndexByte(arg, ')'); j >= 0 {
			arg = arg[:j]
		}
		arg = strings.Trim(strings.TrimSpace(arg), "'\"")
		if !strings.HasPrefix(arg, "http://") && !strings.HasPrefix(arg, "https://") {
			return true
		}
		rest = rest[i+4:]
	}
}

// cssSourcePool extracts every string literal and the property names from
// /repo/css/handlers.go so that the vocabulary follows the code under test.
func cssSourcePool() (lits []string, props []string) {
	fset := token.NewFileSet()
	repo := os.Getenv("VERIF_REPO")
	if repo == "" {
		repo = "/repo"
	}
	f, err := parser.ParseFile(fset, repo+"/css/handlers.go", nil, 0)
	if err != nil {
		return nil, nil
	}
	seen := map[string]bool{}
	ast.Inspect(f, func(n ast.Node) bool {
		switch x := n.(type) {
		case *ast.KeyValueExpr:
			if bl, ok := x.Key.(*ast.BasicLit); ok && bl.Kind == token.STRING {
				if _, isIdent := x.Value.(*ast.Ident); isIdent {
					if s, err := strconv.Unquote(bl.Value); err == nil {
						props = append(props, s)
					}
				}
			}
		case *ast.BasicLit:
			if x.Kind == token.STRING {
				if s, err := strconv.Unquote(x.Value); err == nil && len(s) > 0 && len(s) < 40 && !seen[s] {
					seen[s] = true
					lits = append(lits, s)
				}
			}
		}
		return true
	})
	return
}

func cssProps() []string {
	set := map[string]bool{}
	for _, p := range strings.Fields(cssPropNames) {
		set[p] = true
	}
	_, parsed := cssSourcePool()
	for _, p := range parsed {
		set[p] = true
	}
	var out []string
	for p := range set {
		out = append(out, p)
	}
	sort.Strings(out)
	return out
}

func cssPool() []string {
	lits, _ := cssSourcePool()
	seen := map[string]bool{}
	var out []string
	for _, s := range append(append([]string{}, cssExtraPool...), lits...) {
		if !seen[s] {
			seen[s] = true
			out = append(out, s)
		}
	}
	return out
}

func tokenKind(s string) string {
	switch {
	case s == "":
		return "e"
	case strings.Contains(s, "("):
		return "f:" + s[:strings.Index(s, "(")]
	case s[0] == '#':
		return "#"
	case s[0] >= '0' && s[0] <= '9' || s[0] == '-' || s[0] == '.':
		// unit suffix distinguishes kinds
		i := 0
		for i < len(s) && (s[i] >= '0' && s[i] <= '9' || s[i] == '-' || s[i] == '.') {
			i++
		}
		return "n:" + s[i:]
	case s[0] == '\'' || s[0] == '"':
		return "q"
	case strings.Contains(s, " "):
		return "w2"
	}
	return "k"
}

// subPool picks up to n accepted tokens, at most two per kind, for multi-token values.
func subPool(accepted []string, n int) []string {
	cnt := map[string]int{}
	var out []string
	for _, s := range accepted {
		k := tokenKind(s)
		if cnt[k] >= 2 || containsHostile(s) {
			continue
		}
		cnt[k]++
		out = append(out, s)
		if len(out) == n {
			break
		}
	}
	return out
}

func safeHandler(h func(string) bool, v string) (ok bool, pm string) {
	defer func() {
		if r := recover(); r != nil {
			pm = fmt.Sprint(r)
		}
	}()
	return h(v), ""
}

type c18Case struct {
	Prop  string `json:"property"`
	Value string `json:"value_b64"`
	Human string `json:"value"`
	Mode  string `json:"mode"` // handler | unknown | e2e-hostile | e2e-good
}

func runC18(c *run.Ctx) {
	props := cssProps()
	pool := cssPool()
	seps := []string{" ", ",", "/", " / "}
	nsub := 8
	if !c.Quick() {
		nsub = 12
	}
	// end-to-end policy: every property with its default handler, globally
	e2e := build(spec.Spec{Name: "c18-all-defaults", Base: "new", Calls: []C{els("p"), {Op: "AllowStyles", Names: props, Scope: "global"}}})
	// the same through the other two builder scopes (one AllowStyles call naming every property)
	e2eScopes := []built{
		build(spec.Spec{Name: "c18-all-defaults-on", Base: "new", Calls: []C{els("p"), {Op: "AllowStyles", Names: props, Scope: "on", On: []string{"p"}}}}),
		build(spec.Spec{Name: "c18-all-defaults-matching", Base: "new", Calls: []C{els("p"), {Op: "AllowStyles", Names: props, Scope: "matching", OnRe: `^p$`}}}),
	}

	for _, prop := range props {
		if c.Expired() {
			break
		}
		h := css.GetDefaultHandler(prop)
		var accepted []string
		for _, t := range pool {
			ok, pm := safeHandler(h, t)
			if pm != "" {
				if c.Shard == 0 {
					c.Violate("panic|"+prop, "handler for "+prop+" panicked on "+run.Q(t)+": "+pm, c18Case{prop, run.B64([]byte(t)), run.Q(t), "handler"})
				}
				continue
			}
			if ok {
				accepted = append(accepted, t)
			}
		}
		goods := append([]string{}, accepted...)
		sp := subPool(accepted, nsub)
		for _, a := range sp {
			for _, b := range sp {
				for _, sep := range seps {
					g := a + sep + b
					if ok, _ := safeHandler(h, g); ok {
						goods = append(goods, g)
					}
					if !c.Quick() || sep == " " {
						for di, d := range sp {
							if c.Quick() && di >= 5 {
								break
							}
							g3 := g + sep + d
							if ok, _ := safeHandler(h, g3); ok {
								goods = append(goods, g3)
								// a fourth component, to reach handlers that look at a fixed number of components
								if di == 0 {
									if ok, _ := safeHandler(h, g3+sep+d); ok {
										goods = append(goods, g3+sep+d)
									}
								}
							}
						}
					}
				}
			}
		}
		if c.Shard == 0 {
			c.Notes["good_values_total"] = toF(c.Notes["good_values_total"]) + float64(len(goods))
			if len(accepted) == 0 {
				c.Notes["handlers_without_good_value"] = toF(c.Notes["handlers_without_good_value"]) + 1
			}
		}
		judge := func(g, cand string) {
			if !c.Own([]byte(prop), []byte(cand)) {
				return
			}
			if !containsHostile(cand) {
				c.Outcome("candidate-not-hostile-skipped")
				return
			}
			c.Eval()
			c.States++
			c.Transitions++
			c.Traces++
			if len(g) >= 2 {
				c.Nontrivial([]byte(prop), []byte(cand))
			}
			ok, pm := safeHandler(h, cand)
			if pm != "" {
				c.Violate("panic|"+prop, "handler for "+prop+" panicked on "+run.Q(cand)+": "+pm, c18Case{prop, run.B64([]byte(cand)), run.Q(cand), "handler"})
				return
			}
			if ok {
				c.Violate("accepts|"+prop+"|"+hostileClass(cand), fmt.Sprintf("default handler for %s accepts %s", prop, run.Q(cand)), c18Case{prop, run.B64([]byte(cand)), run.Q(cand), "handler"})
				c.Outcome("violation|" + prop)
				return
			}
			c.Outcome("rejected")
			if c.WantSample() && len(g) > 8 {
				c.Sample(map[string]string{"property": prop, "good": g, "rejected_candidate": cand})
			}
		}
		for _, g := range goods {
			if containsHostile(g) {
				// a pool token that is itself hostile and accepted
				judge(g, g)
				continue
			}
			for _, hf := range hostileFrags {
				for i := 0; i <= len(g); i++ {
					judge(g, g[:i]+hf+g[i:])
				}
				for _, sep := range []string{" ", ",", "/", " / ", ";", ", ", "\n", "  ", "\t"} {
					judge(g, hf+sep+g)
					judge(g, g+sep+hf)
				}
				// single-character fragments also substituted for each byte of the good value
				if len(hf) == 1 {
					for i := 0; i < len(g); i++ {
						judge(g, g[:i]+hf+g[i+1:])
					}
				}
			}
		}
		// hostile fragments alone
		for _, hf := range hostileFrags {
			judge("", hf)
		}
		// end to end
		for gi, g := range goods {
			if containsHostile(g) || strings.ContainsAny(g, ";") || g != strings.TrimSpace(g) || g == "" {
				continue
			}
			if gi%c.NShards != c.Shard {
				continue
			}
			doc := "<p style=" + htmlAttrQuote(strings.ReplaceAll(prop+": "+g, "&", "&amp;")) + ">t</p>"
			out, pm := San(e2e.P, doc)
			c.Eval()
			c.Transitions++
			if pm != "" {
				c.Violate("panic|e2e", "Sanitize panicked: "+pm, c18Case{prop, run.B64([]byte(g)), run.Q(g), "e2e-good"})
				continue
			}
			for _, sb := range e2eScopes {
				if o2, _ := San(sb.P, doc); o2 != out {
					c.Violate("e2e-scope|"+prop, fmt.Sprintf("default handler for %s behaves differently when registered through %s: %s vs %s (input %s)", prop, sb.S.Name, run.Q(o2), run.Q(out), run.Q(doc)), c18Case{prop, run.B64([]byte(g)), run.Q(g), "e2e-scope"})
				}
				c.Eval()
			}
			if !strings.Contains(out, "style=") && g == strings.ToLower(g) && !strings.Contains(g, "  ") && cleanForDouceur(g) {
				c.Violate("e2e-good-dropped|"+prop, fmt.Sprintf("value %s is accepted by the default handler for %s but Sanitize removed the declaration; output=%s", run.Q(g), prop, run.Q(out)), c18Case{prop, run.B64([]byte(g)), run.Q(g), "e2e-good"})
			} else {
				c.Outcome("e2e|good-kept")
			}
			// one hostile candidate per good value and fragment (middle position)
			for hi, hf := range hostileFrags {
				for ci, cand := range []string{g[:len(g)/2] + hf + g[len(g)/2:], g + " " + hf, hf + " " + g, hf, "/* a */ " + hf + " /* b */ " + g} {
					if ci == 3 && gi >= c.NShards {
						continue // the fragment alone: once per shard is enough
					}
					_ = hi
					doc := "<p style=" + htmlAttrQuote(strings.ReplaceAll(prop+": "+cand, "&", "&amp;")) + ">t</p>"
					out, pm := San(e2e.P, doc)
					c.Eval()
					c.Transitions++
					if pm != "" {
						c.Violate("panic|e2e", "Sanitize panicked: "+pm, c18Case{prop, run.B64([]byte(cand)), run.Q(cand), "e2e-hostile"})
						continue
					}
					if w := e2eHostileSurvives(out); w != "" {
						c.Violate("e2e-accepts|"+prop+"|"+hostileClass(cand), fmt.Sprintf("Sanitize with the default handler for %s kept %s; input=%s output=%s", prop, run.Q(w), run.Q(doc), run.Q(out)), c18Case{prop, run.B64([]byte(cand)), run.Q(cand), "e2e-hostile"})
					} else {
						c.Outcome("e2e|hostile-removed")
					}
				}
			}
		}
	}
	// names one edit away from a known property (a character prepended or appended, a vendor-prefix-like start, upper
	// case, white space) are unknown properties: each must reject the values the known property accepts
	known := map[string]bool{}
	for _, p := range props {
		known[p] = true
	}
	for _, prop := range props {
		if !c.Own([]byte("c18near"), []byte(prop)) || c.Expired() {
			continue
		}
		hk := css.GetDefaultHandler(prop)
		var good string
		for _, t := range pool {
			if ok, _ := safeHandler(hk, t); ok {
				good = t
				break
			}
		}
		if good == "" {
			continue
		}
		var names []string
		for _, ch := range "-_abcdefghijklmnopqrstuvwxyz0 " {
			names = append(names, string(ch)+prop, prop+string(ch))
		}
		names = append(names, "--"+prop, "-x-"+prop, "x-"+prop, strings.ToUpper(prop), prop[1:], prop[:len(prop)-1], prop+"-"+prop)
		for _, name := range names {
			if known[name] {
				continue
			}
			c.Eval()
			c.Transitions++
			if ok, _ := safeHandler(css.GetDefaultHandler(name), good); ok {
				c.Violate("unknown-property|near", fmt.Sprintf("handler for unknown property %q accepts %s (a value of %s)", name, run.Q(good), prop), c18Case{name, run.B64([]byte(good)), run.Q(good), "unknown"})
				c.Outcome("violation|unknown-property")
			} else {
				c.Outcome("unknown-property-rejects")
			}
		}
	}
	// unknown property: rejects everything
	if c.Shard == 0 {
		for _, name := range []string{"no-such-property", "behavior", "-moz-binding", ""} {
			h := css.GetDefaultHandler(name)
			for _, t := range pool {
				c.Eval()
				if ok, _ := safeHandler(h, t); ok {
					c.Violate("unknown-property", fmt.Sprintf("handler for unknown property %q accepts %s", name, run.Q(t)), c18Case{name, run.B64([]byte(t)), run.Q(t), "unknown"})
				}
			}
		}
		c.Notes["properties"] = float64(len(props))
		c.Notes["pool_tokens"] = float64(len(pool))
	}
}

func toF(x interface{}) float64 {
	if f, ok := x.(float64); ok {
		return f
	}
	return 0
}

// cleanForDouceur: values the CSS declaration parser round-trips without change.
func cleanForDouceur(g string) bool {
	return !strings.ContainsAny(g, "'\"{}:") && !strings.Contains(g, "/*")
}

func hostileClass(cand string) string {
	l := strings.ToLower(cand)
	switch {
	case strings.Contains(l, "\\"):
		return "backslash"
	case strings.Contains(l, "expression("):
		return "expression"
	case strings.Contains(l, "url("):
		return "url"
	case strings.Contains(l, "javascript:"), strings.Contains(l, "data:"):
		return "scheme"
	case strings.ContainsAny(l, "<>"):
		return "angle"
	case strings.Contains(l, "@"):
		return "at-rule"
	}
	return "other"
}

// e2eHostileSurvives returns the surviving declaration if the output carries a
// style whose value, as a browser reads it, contains a hostile construct.
func e2eHostileSurvives(out string) string {
	for _, t := range obs.Retok(out) {
		if t.Type != html.StartTagToken {
			continue
		}
		for _, a := range t.Attr {
			if a.Key != "style" {
				continue
			}
			decls, _ := splitStyle(a.Val)
			for _, d := range decls {
				if containsHostile(strings.ToLower(obs.CSSDecode(d.val))) {
					return d.prop + ": " + d.val
				}
				// unquoted url tokens as a browser delimits them in the text as written: the argument, escapes
				// decoded, is the URL (quotes that come out of escapes are part of it)
				for i := 0; i < len(d.val); i++ {
					if d.val[i] != '(' {
						continue
					}
					if end, isURL := urlTokenEnd(d.val, i); isURL {
						arg := strings.ToLower(strings.TrimSpace(obs.CSSDecode(strings.TrimSuffix(d.val[i+1:end], ")"))))
						if !strings.HasPrefix(arg, "http://") && !strings.HasPrefix(arg, "https://") {
							return d.prop + ": " + d.val
						}
						i = end - 1
					}
				}
			}
		}
	}
	return ""
}

func replayC18(raw json.RawMessage) (bool, string) {
	var x c18Case
	json.Unmarshal(raw, &x)
	v := string(run.UnB64(x.Value))
	switch x.Mode {
	case "handler", "unknown":
		ok, pm := safeHandler(css.GetDefaultHandler(x.Prop), v)
		if pm != "" {
			return true, "panic: " + pm
		}
		return ok, fmt.Sprintf("default handler for %q accepts %s", x.Prop, run.Q(v))
	case "e2e-scope":
		props := cssProps()
		doc := "<p style=" + htmlAttrQuote(strings.ReplaceAll(x.Prop+": "+v, "&", "&amp;")) + ">t</p>"
		ref, _ := San(spec.Build(spec.Spec{Base: "new", Calls: []C{els("p"), {Op: "AllowStyles", Names: props, Scope: "global"}}}), doc)
		for _, sc := range []C{{Op: "AllowStyles", Names: props, Scope: "on", On: []string{"p"}}, {Op: "AllowStyles", Names: props, Scope: "matching", OnRe: `^p$`}} {
			o, _ := San(spec.Build(spec.Spec{Base: "new", Calls: []C{els("p"), sc}}), doc)
			if o != ref {
				return true, "scopes disagree: " + run.Q(o) + " vs " + run.Q(ref)
			}
		}
		return false, "scopes agree"
	case "e2e-hostile", "e2e-good":
		e2e := build(spec.Spec{Name: "c18-all-defaults", Base: "new", Calls: []C{els("p"), {Op: "AllowStyles", Names: cssProps(), Scope: "global"}}})
		doc := "<p style=" + htmlAttrQuote(strings.ReplaceAll(x.Prop+": "+v, "&", "&amp;")) + ">t</p>"
		out, pm := San(e2e.P, doc)
		if pm != "" {
			return true, "panic: " + pm
		}
		if x.Mode == "e2e-good" {
			return !strings.Contains(out, "style="), "good value dropped; output=" + run.Q(out)
		}
		w := e2eHostileSurvives(out)
		return w != "", "kept " + run.Q(w)
	}
	return false, "unknown mode"
}

var _ = os.Getenv
