package checks

import (
	"encoding/json"
	"fmt"
	"strings"

	"golang.org/x/net/html"

	"verif/harness/internal/obs"
	"verif/harness/internal/run"
	"verif/harness/internal/spec"
)

// C06 — text is preserved exactly and always emitted escaped.

func init() {
	register(&run.Check{
		ID:    "C06",
		Level: "model_checking",
		Rule: "bounded-exhaustive: fragment sequences over the text-heavy alphabet (all character-reference forms, bare & and <, CR/LF, NUL, non-BMP, invalid UTF-8, raw-text and RCDATA elements in the input) and byte strings over B, " +
			"crossed with every policy of the family in the property's class (no raw-text element allowed), with and without AddSpaceWhenStrippingTag; inputs containing script/style/skip-content elements are filtered out as the property states. " +
			"Oracle: an exact alignment between the re-tokenised input and output in which every input character appears unchanged, every input tag is kept or replaced by nothing (exactly one space with space insertion) and every output tag is an input tag. " +
			"non-trivial = the input contains at least one tag, comment or character reference.",
		Assumptions: []string{"text is what x/net/html's tokenizer reads, as the property states"},
		QuickBudget: 50, ThoroughBudget: 800,
		Run:    runC06,
		Replay: replayC06,
	})
}

var rawTextEls = []string{"iframe", "noembed", "noframes", "noscript", "plaintext", "xmp"}

func inC06Class(v *spec.View) bool {
	if v.Unsafe {
		return false
	}
	for _, e := range rawTextEls {
		if v.ElementAllowed(e) {
			return false
		}
	}
	return true
}

type item struct {
	kind byte // 'c' char, 't' tag, 'm' comment/doctype
	ch   byte
	tag  string
}

func itemsOf(toks []obs.Tok) []item {
	var out []item
	for _, t := range toks {
		switch t.Type {
		case html.TextToken:
			for i := 0; i < len(t.Data); i++ {
				out = append(out, item{kind: 'c', ch: t.Data[i]})
			}
		case html.StartTagToken:
			out = append(out, item{kind: 't', tag: "<" + t.Name + ">"})
		case html.EndTagToken:
			out = append(out, item{kind: 't', tag: "</" + t.Name + ">"})
		case html.SelfClosingTagToken:
			out = append(out, item{kind: 't', tag: "<" + t.Name + "/>"})
		default:
			out = append(out, item{kind: 'm'})
		}
	}
	return out
}

// c06Applicable: input free of script, style and skip-content elements.
func c06Applicable(v *spec.View, in []obs.Tok) bool {
	for _, t := range in {
		switch t.Type {
		case html.StartTagToken, html.EndTagToken, html.SelfClosingTagToken:
			if t.Name == "script" || t.Name == "style" || v.Skip[t.Name] {
				return false
			}
		}
	}
	return true
}

// alignC06 decides whether out is in with tags deleted (or replaced by one space).
func alignC06(in, out []item, spaces bool) (ok bool, why string) {
	j := 0
	for i := 0; i < len(in); i++ {
		a := in[i]
		switch a.kind {
		case 'c':
			if j >= len(out) || out[j].kind != 'c' || out[j].ch != a.ch {
				return false, fmt.Sprintf("input character #%d (%q) is missing or altered in the output", i, string([]byte{a.ch}))
			}
			j++
		case 't':
			if j < len(out) && out[j].kind == 't' && out[j].tag == a.tag {
				j++ // kept
				continue
			}
			if spaces {
				if j >= len(out) || out[j].kind != 'c' || out[j].ch != ' ' {
					return false, fmt.Sprintf("removed tag %s was not replaced by exactly one space", a.tag)
				}
				j++
			}
		case 'm':
			if j < len(out) && out[j].kind == 'm' {
				j++
			}
		}
	}
	if j != len(out) {
		o := out[j]
		switch o.kind {
		case 't':
			return false, "output contains tag " + o.tag + " that is not an input tag at that position (text became markup or a tag was duplicated)"
		case 'c':
			return false, fmt.Sprintf("output contains extra character %q", string([]byte{o.ch}))
		}
		return false, "output contains an extra comment"
	}
	return true, ""
}

func judgeC06(b *built, in string) (sig, what string, applicable, nontrivial bool) {
	it := obs.Retok(in)
	if !c06Applicable(b.V, it) {
		return "", "", false, false
	}
	out, pm := San(b.P, in)
	if pm != "" {
		return "panic", "Sanitize panicked: " + pm, true, true
	}
	ot := obs.Retok(out)
	ii, oi := itemsOf(it), itemsOf(ot)
	for _, x := range ii {
		if x.kind != 'c' {
			nontrivial = true
			break
		}
	}
	if !nontrivial && strings.ContainsAny(in, "&\r\x00") {
		nontrivial = true
	}
	ok, why := alignC06(ii, oi, b.V.AddSpaces)
	if !ok {
		cls := "text-altered"
		switch {
		case strings.Contains(why, "not an input tag"):
			cls = "text-became-markup"
		case strings.Contains(why, "space"):
			cls = "space-count"
		case strings.Contains(why, "extra"):
			cls = "text-added"
		}
		return cls, fmt.Sprintf("%s; policy=%s input=%s output=%s", why, b.S.Name, run.Q(in), run.Q(out)), true, nontrivial
	}
	return "", "", true, nontrivial
}

var fragText = []string{
	"a", " ", "&amp;", "&lt;", "&gt;", "&quot;", "&#13;", "&#10;", "&#0;", "&#x3c;", "&notit;", "&amp", "&#", "&",
	"<", ">", "\"", "'", "\r", "\n", "\r\n", "\x00", "\xff", "\U0001F600", " ",
	"<b>", "</b>", "<x>", "</x>", "<br>", "<br/>", "<x/>", "<a>", "<a href=\"/\">", "</a>", "<i id=q>",
	"<textarea>", "</textarea>", "<xmp>", "</xmp>", "<plaintext>", "<!--", "-->", "<?pi?>", "<![CDATA[", "]]>", "<!DOCTYPE html>",
	"<my-x id=a>", "<my-y>", "</my-x>", "<B>", "<b", "</", "<title>", "</title>", "<svg>", "<math>", "<img src=x>", "<select>", "<table>", "<td>", "<img>", "<area>", "<img/>", "<a title=t>", "<textarea/>", "<xmp/>", "<plaintext/>", "<b/>",
}

func c06Specs(c *run.Ctx) (named, subs []built) {
	for _, s := range namedSpecs() {
		b := build(s)
		if inC06Class(b.V) {
			named = append(named, b)
		}
	}
	// space-insertion variants
	for _, n := range []string{"ugc", "pattern", "pattern-bare", "attrs", "skipmod", "foreign"} {
		s := specByName(n)
		s.Name += "+spaces"
		s.Calls = append(append([]C{}, s.Calls...), opt("AddSpaceWhenStrippingTag", true))
		named = append(named, build(s))
	}
	k := 2
	if !c.Quick() {
		k = 3
	}
	for _, s := range subsetSpecs(k) {
		b := build(s)
		if inC06Class(b.V) {
			subs = append(subs, b)
		}
	}
	return
}

func runC06(c *run.Ctx) {
	named, subs := c06Specs(c)
	eval := func(set []built, in []byte) {
		s := string(in)
		c.States++
		for i := range set {
			b := &set[i]
			c.Trace(func() string { return b.S.String() + "\n" + run.Q(s) })
			sig, what, app, nt := judgeC06(b, s)
			if !app {
				c.Outcome("filtered-out|skip-content-element-in-input")
				continue
			}
			c.Eval()
			c.Transitions++
			c.Traces++
			if nt {
				c.Nontrivial([]byte(b.S.Name), in)
			}
			if sig != "" {
				c.Violate(sig, what, mkCase(b.S, in))
				c.Outcome("violation|" + sig)
				continue
			}
			if nt {
				c.Outcome(b.S.Name + "|aligned")
				if c.WantSample() && len(in) > 10 {
					c.Sample(map[string]string{"policy": b.S.Name, "input": s})
				}
			} else {
				c.Outcome(b.S.Name + "|plain-text")
			}
		}
	}
	all := append(append([]built{}, named...), subs...)
	Seqs(c, fragText, 0, 2, func(in []byte, _ []int) { eval(all, in) })
	if c.Quick() {
		Seqs(c, fragText, 3, 3, func(in []byte, _ []int) { eval(named, in) })
	} else {
		// thorough: k=3 on named + every <=2-subset policy, k=4 over the first 30 text fragments on eight named policies
		var small []built
		small = append(small, named...)
		for _, s := range subsetSpecs(2) {
			b := build(s)
			if inC06Class(b.V) {
				small = append(small, b)
			}
		}
		Seqs(c, fragText, 3, 3, func(in []byte, _ []int) { eval(small, in) })
		Seqs(c, fragText[:30], 4, 4, func(in []byte, _ []int) { eval(named[:min(8, len(named))], in) })
	}
	Seqs(c, fragAll(), 3, 3, func(in []byte, _ []int) { eval(named[:min(6, len(named))], in) })
	SeqsS(c, "exotic", fragCoreExotic(), 0, 2, func(in []byte, _ []int) { eval(named, in) })
	SeqsS(c, "exotic", fragCoreExotic(), 3, 3, func(in []byte, _ []int) { eval(named[:min(8, len(named))], in) })
	nb := 5
	bsp := pick(named, "bpbr", "bpbr-spaces", "ugc")
	if !c.Quick() {
		nb = 6
		bsp = pick(named, "bpbr-spaces")
	}
	BytesS(c, "bytes", byteAlpha, 1, nb, func(in []byte) { eval(bsp, in) })
	// long single tokens (text run, attribute value, comment) around internal buffer sizes
	if c.Shard < 7 {
		n := []int{4095, 4096, 4097, 65535, 65536, 70000, 300000}[c.Shard]
		long := strings.Repeat("abcdefghij", n/10+1)[:n]
		lp := pick(named, "bpbr", "ugc", "bpbr-spaces")
		for _, doc := range []string{long, "<b>" + long + "</b>", `<a href="/x" title="` + long + `">t</a>x`, "<x>" + long, "t<!--" + long + "-->u", long + "&amp;" + long} {
			eval(lp, []byte(doc))
		}
	}
	if c.Shard == 0 {
		c.Notes["policies_in_class"] = float64(len(all))
	}
}

func replayC06(raw json.RawMessage) (bool, string) {
	cs, in := parseCase(raw)
	b := build(cs.Spec)
	sig, what, app, _ := judgeC06(&b, string(in))
	if !app {
		return false, "input filtered out (contains script/style/skip-content element)"
	}
	return sig != "", what
}
