package checks

import (
	"encoding/json"
	"fmt"
	"net/url"
	"strings"

	"golang.org/x/net/html"

	"verif/harness/internal/obs"
	"verif/harness/internal/run"
	"verif/harness/internal/spec"
)

// C03 — URL attributes carry only allowed schemes (or allowed relative URLs).

func init() {
	register(&run.Check{
		ID:    "C03",
		Level: "model_checking",
		Rule: "bounded-exhaustive: URL strings = every sequence of <=3 (thorough 4) fragments over a 46-fragment URL alphabet (schemes in several casings, ':' and its character references, tab/LF/CR and their references, C0 controls, NUL, DEL, backslash, percent-escapes, userinfo, query, fragment, IDN, Unicode spaces) " +
			"and every byte string <=4 (thorough 5) over a 13-byte alphabet, placed in each of the 17 element/attribute positions the property lists (alone, and as the second or first of a duplicated attribute next to a valid / rejected / empty value), plus data: URIs (every sequence <=4 over a 24-fragment data-URI alphabet under AllowDataURIImages policies), crossed with scheme allowlists {http,https,mailto} x relative on/off x custom check on http x scheme regexp x rewriter on/off, plus the boundary shapes of the scheme tables (URL checking on with no scheme allowed, only a scheme pattern, an unanchored pattern, a pattern that also matches the empty string with relative URLs not allowed, only a custom-checked scheme). " +
			"Oracle on every surviving value (as re-tokenised): no byte <=0x20 or 0x7f, WHATWG-style scheme (independent of net/url) on the allowlist and approved by the custom check, or relative only if allowed; a surviving http / https / ftp / ws / wss URL must have // and a host (without them a browser reads it as absolute or as relative depending on the page); with a rewriter every surviving src is the rewriter's result. " +
			"non-trivial = the URL attribute was removed or rewritten.",
		Assumptions: []string{
			"scheme classification is the harness's WHATWG-style extractor (strip C0/space at the ends, delete tab/LF/CR, ^[A-Za-z][A-Za-z0-9+.-]*:), not net/url",
			"custom checks are pure functions from the harness registry, applied by the oracle to the surviving value",
		},
		QuickBudget: 50, ThoroughBudget: 800,
		Run:    runC03,
		Replay: replayC03,
	})
}

type urlPos struct{ el, attr string }

var urlPositions = []urlPos{
	{"a", "href"}, {"img", "src"}, {"q", "cite"},
	{"area", "href"}, {"base", "href"}, {"link", "href"},
	{"blockquote", "cite"}, {"del", "cite"}, {"ins", "cite"},
	{"audio", "src"}, {"embed", "src"}, {"iframe", "src"}, {"input", "src"}, {"script", "src"},
	{"source", "src"}, {"track", "src"}, {"video", "src"},
}

func c03Specs() []built {
	base := []C{
		attrsOn([]string{"href", "title"}, "", "a", "area", "base", "link"),
		attrsOn([]string{"cite", "title"}, "", "blockquote", "del", "ins", "q"),
		attrsOn([]string{"src", "title"}, "", "audio", "embed", "iframe", "img", "input", "script", "source", "track", "video"),
		opt("AllowUnsafe", true),
		opt("RequireParseableURLs", true),
		{Op: "AllowURLSchemes", Names: []string{"http", "HTTPS", "mailto"}},
	}
	var out []spec.Spec
	for rel := 0; rel < 2; rel++ {
		for variant := 0; variant < 3; variant++ {
			for rw := 0; rw < 2; rw++ {
				calls := append([]C{}, base...)
				calls = append(calls, opt("AllowRelativeURLs", rel == 1))
				switch variant {
				case 1:
					calls = append(calls, C{Op: "AllowURLSchemeWithCustomPolicy", Names: []string{"http"}, Fn: "host-example.org"})
				case 2:
					calls = append(calls, C{Op: "AllowURLSchemesMatching", Re: `^(ftp|tel)$`})
				}
				if rw == 1 {
					calls = append(calls, C{Op: "RewriteSrc", Fn: "proxy"})
				}
				out = append(out, spec.Spec{Name: fmt.Sprintf("url-rel%d-v%d-rw%d", rel, variant, rw), Base: "new", Calls: calls})
			}
		}
	}
	// a rewriter whose result is not itself on the allowlist (https missing): every surviving src is still the rewriter's result
	out = append(out, spec.Spec{Name: "url-http-only-rw1", Base: "new", Calls: []C{base[0], base[1], base[2], base[3], base[4],
		{Op: "AllowURLSchemes", Names: []string{"http", "mailto"}}, opt("AllowRelativeURLs", false), {Op: "RewriteSrc", Fn: "proxy"}}})
	// the URL attributes admitted Globally() instead of per element
	out = append(out, spec.Spec{Name: "url-global-attrs-rw0", Base: "new", Calls: []C{
		els("a", "area", "base", "link", "blockquote", "del", "ins", "q", "audio", "embed", "iframe", "img", "input", "script", "source", "track", "video"),
		attrsGlob([]string{"href", "cite", "src", "title"}, ""), opt("AllowUnsafe", true), opt("RequireParseableURLs", true),
		{Op: "AllowURLSchemes", Names: []string{"http", "https"}}, opt("AllowRelativeURLs", false)}})
	// boundary shapes of the scheme tables: URL checking on with no scheme ever allowed (with and without relative
	// URLs), only a scheme pattern, only a scheme with a custom check
	noSch := []C{base[0], base[1], base[2], base[3]}
	w := func(more ...C) []C { return append(append([]C{}, noSch...), more...) }
	out = append(out,
		spec.Spec{Name: "url-no-schemes-rel1", Base: "new", Calls: w(opt("AllowRelativeURLs", true))},
		spec.Spec{Name: "url-no-schemes-parseable-only", Base: "new", Calls: w(opt("RequireParseableURLs", true))},
		spec.Spec{Name: "url-no-schemes-via-nofollow", Base: "new", Calls: w(opt("RequireNoFollowOnLinks", true))},
		spec.Spec{Name: "url-only-scheme-pattern", Base: "new", Calls: w(opt("RequireParseableURLs", true), C{Op: "AllowURLSchemesMatching", Re: `^(ftp|tel)$`})},
		spec.Spec{Name: "url-unanchored-scheme-pattern", Base: "new", Calls: w(opt("RequireParseableURLs", true), C{Op: "AllowURLSchemesMatching", Re: `e\.x`})},
		// a scheme pattern that also matches the empty string must not admit scheme-less (relative) references
		spec.Spec{Name: "url-scheme-pattern-matches-empty", Base: "new", Calls: w(opt("RequireParseableURLs", true), C{Op: "AllowURLSchemes", Names: []string{"https"}}, C{Op: "AllowURLSchemesMatching", Re: `^(ftp|tel)?$`})},
		spec.Spec{Name: "url-only-scheme-pattern-star", Base: "new", Calls: w(opt("RequireParseableURLs", true), C{Op: "AllowURLSchemesMatching", Re: `^[a-z]*$`}, opt("AllowRelativeURLs", false))},
		// a custom check that refuses one host: it has to see the host a browser will go to
		spec.Spec{Name: "url-custom-deny-host", Base: "new", Calls: w(opt("AllowRelativeURLs", false), C{Op: "AllowURLSchemeWithCustomPolicy", Names: []string{"http", "https"}, Fn: "host-not-e.x"})},
		spec.Spec{Name: "url-only-custom-scheme", Base: "new", Calls: w(opt("AllowRelativeURLs", true), C{Op: "AllowURLSchemeWithCustomPolicy", Names: []string{"http"}, Fn: "host-example.org"})})
	// the shipped policy too (implies URL checking through AllowStandardURLs)
	out = append(out, specByName("ugc"), specByName("cmd-email"))
	return buildAll(out)
}

const rewriterStamp = "https://proxy.invalid/p?u="

// judgeURLValue applies the C03 oracle to one surviving value.
func judgeURLValue(v *spec.View, el, key, val string) (sig, what string) {
	if !v.ParseableURLs {
		return "", ""
	}
	if obs.HasCtlOrSpace(val) {
		return "ctl-or-space", fmt.Sprintf("surviving %s.%s=%s contains whitespace or a control character", el, key, run.Q(val))
	}
	if key == "src" && v.Rewriter != "" {
		if !strings.HasPrefix(val, rewriterStamp) {
			return "not-rewritten|" + el, fmt.Sprintf("surviving %s.src=%s is not the rewriter's result", el, run.Q(val))
		}
		return "", ""
	}
	sch, has := obs.URLScheme(val)
	if !has {
		if !v.RelativeURLs {
			return "relative", fmt.Sprintf("relative reference %s.%s=%s kept although relative URLs are not allowed", el, key, run.Q(val))
		}
		return "", ""
	}
	// For the special schemes a value without "//" + host has no single reading: a browser takes "https:e.x/p" as
	// the host e.x on a page of another scheme and as a reference relative to the page on an https page (WHATWG URL,
	// "special relative or authority state"), so neither the allowlist, nor a custom check, nor the relative switch
	// has judged what the browser will use.
	switch sch {
	case "http", "https", "ftp", "ws", "wss":
		rest := strings.ReplaceAll(val[strings.IndexByte(val, ':')+1:], `\`, "/")
		if !strings.HasPrefix(rest, "//") || len(rest) < 3 || rest[2] == '/' || rest[2] == '?' || rest[2] == '#' {
			return "special-no-authority|" + el + "." + key, fmt.Sprintf("%s.%s=%s survives: a %s URL without \"//\" and a host is absolute or relative for a browser depending on the page it is on", el, key, run.Q(val), sch)
		}
	}
	checks, listed := v.Schemes[sch]
	if !listed {
		for _, r := range v.SchemeRes {
			if r.MatchString(sch) {
				return "", ""
			}
		}
		return "scheme|" + el + "." + key, fmt.Sprintf("%s.%s=%s survives with scheme %q which is not on the allowlist", el, key, run.Q(val), sch)
	}
	if len(checks) == 0 {
		return "", ""
	}
	u, err := url.Parse(browserForm(sch, val))
	if err != nil {
		return "unparseable", fmt.Sprintf("surviving %s.%s=%s does not parse", el, key, run.Q(val))
	}
	for _, fn := range checks {
		if spec.URLPolicies[fn](u) {
			return "", ""
		}
	}
	return "custom-check|" + el + "." + key, fmt.Sprintf("%s.%s=%s survives although the custom check for scheme %q rejects it", el, key, run.Q(val), sch)
}

// browserForm: for the special schemes a browser takes any run of slashes and backslashes after the colon (none
// included) as the start of the authority: "https:e.x/p", "https:/e.x/p" and "https:\\e.x/p" all name the host e.x.
// The custom check is an approval of the URL the browser will use, so the oracle puts the value into that form first.
func browserForm(sch, val string) string {
	switch sch {
	case "http", "https", "ftp", "ws", "wss":
	default:
		return val
	}
	i := strings.IndexByte(val, ':')
	if i < 0 {
		return val
	}
	rest := strings.ReplaceAll(val[i+1:], `\`, "/")
	// (the authority ends at the first / ? #; backslashes after it are path characters that a browser also turns
	// into slashes)
	return sch + "://" + strings.TrimLeft(rest, "/")
}

func judgeC03(v *spec.View, out string) (sig, what string) {
	for _, t := range obs.Retok(out) {
		if t.Type != html.StartTagToken && t.Type != html.SelfClosingTagToken {
			continue
		}
		for _, a := range t.Attr {
			if isURLAttr(t.Name, a.Key) {
				if s, w := judgeURLValue(v, t.Name, a.Key, a.Val); s != "" {
					return s, w
				}
			}
		}
	}
	return "", ""
}

func runC03(c *run.Ctx) {
	bs := c03Specs()
	urlAl := append(append([]string{}, urlFrags...), "example.org", "ftp")
	eval := func(set []built, in []byte, rawURL string) {
		s := string(in)
		c.States++
		for i := range set {
			b := &set[i]
			c.Trace(func() string { return b.S.String() + "\n" + run.Q(s) })
			out, pm := San(b.P, s)
			c.Eval()
			c.Transitions++
			c.Traces++
			if pm != "" {
				c.Violate("panic", "Sanitize panicked: "+pm, mkCase(b.S, in))
				continue
			}
			sig, what := judgeC03(b.V, out)
			if sig != "" {
				c.Violate(sig, fmt.Sprintf("%s; policy=%s input=%s output=%s", what, b.S.Name, run.Q(s), run.Q(out)), mkCase(b.S, in))
				c.Outcome("violation|" + sig)
				continue
			}
			kept := strings.Contains(out, "=\"") && (strings.Contains(out, "href=") || strings.Contains(out, "src=") || strings.Contains(out, "cite="))
			switch {
			case !kept:
				c.Nontrivial([]byte(b.S.Name), in)
				c.Outcome("url-removed")
			case strings.Contains(out, rewriterStamp):
				c.Nontrivial([]byte(b.S.Name), in)
				c.Outcome("url-kept-rewritten")
			case !strings.Contains(out, "\""+rawURL+"\""):
				c.Nontrivial([]byte(b.S.Name), in)
				c.Outcome("url-kept-normalised")
				if c.WantSample() {
					c.Sample(map[string]string{"policy": b.S.Name, "input": s, "output": out})
				}
			default:
				c.Outcome("url-kept-verbatim")
			}
		}
	}
	mk := func(p urlPos, u []byte) []byte {
		return []byte("<" + p.el + " " + p.attr + "=" + htmlAttrQuote(string(u)) + " title=t>")
	}
	k := 3
	if !c.Quick() {
		k = 4
	}
	// every position and policy up to k-1; at depth k the three principal positions get every
	// rewriter-off policy plus two rewriter-on ones, the other fourteen positions three policies
	var deepMain, deepRest []built
	for i := range bs {
		n := bs[i].S.Name
		if strings.HasSuffix(n, "rw0") || n == "url-rel1-v0-rw1" || n == "url-rel0-v1-rw1" ||
			strings.HasPrefix(n, "url-no-schemes") || strings.HasPrefix(n, "url-only-") || strings.HasPrefix(n, "url-unanchored-") ||
			strings.HasPrefix(n, "url-custom-") || strings.HasPrefix(n, "url-scheme-pattern-") {
			deepMain = append(deepMain, bs[i])
		}
		if n == "url-rel0-v0-rw0" || n == "url-rel1-v1-rw1" || n == "url-rel1-v2-rw0" || n == "url-http-only-rw1" || n == "url-global-attrs-rw0" {
			deepRest = append(deepRest, bs[i])
		}
	}
	SeqsS(c, "url", urlAl, 0, k, func(u []byte, idx []int) {
		for pi, p := range urlPositions {
			set := bs
			if len(idx) == k {
				set = deepRest
				if pi < 3 {
					set = deepMain
				}
			}
			eval(set, mk(p, u), string(u))
		}
	})
	// duplicated URL attribute: a first (valid / rejected / empty) value followed by the enumerated one, and the reverse
	firsts := []string{"http://e.x/ok", "x y", "", "javascript:x"}
	kd := 2
	if !c.Quick() {
		kd = 3
	}
	SeqsS(c, "urldup", urlAl, 0, kd, func(u []byte, idx []int) {
		for pi, p := range urlPositions {
			if len(idx) == kd && pi >= 6 {
				break
			}
			for _, f := range firsts {
				q1, q2 := htmlAttrQuote(f), htmlAttrQuote(string(u))
				eval(deepMain, []byte("<"+p.el+" "+p.attr+"="+q1+" "+p.attr+"="+q2+" title=t>"), string(u))
				eval(deepRest, []byte("<"+p.el+" "+p.attr+"="+q2+" title=t "+p.attr+"="+q1+">"), string(u))
			}
		}
	})
	// data: URIs (allowed only as base64 images by AllowDataURIImages; the one place where white space inside a URL is tolerated on input)
	dataSpecs := buildAll([]spec.Spec{
		{Name: "data-images", Base: "new", Calls: []C{attrsOn([]string{"src", "title"}, "", "img", "audio", "source", "input"), attrsOn([]string{"href"}, "", "a"), {Op: "AllowDataURIImages"}, opt("AllowRelativeURLs", false)}},
		{Name: "data-images-ugc-rw", Base: "ugc", Calls: []C{{Op: "AllowDataURIImages"}, {Op: "RewriteSrc", Fn: "proxy"}}},
		specByName("cmd-email"), specByName("ugc"),
		// the data scheme allowed like any other scheme (no image check)
		{Name: "data-scheme-plain", Base: "new", Calls: []C{attrsOn([]string{"src", "title"}, "", "img", "audio", "source", "input"), attrsOn([]string{"href"}, "", "a"),
			{Op: "AllowURLSchemes", Names: []string{"http", "data"}}, opt("AllowRelativeURLs", false)}},
	})
	dataAl := dataURIFrags
	kdat := 4
	if !c.Quick() {
		kdat = 5
	}
	SeqsS(c, "urldata", dataAl, 1, kdat, func(u []byte, idx []int) {
		if !strings.HasPrefix(strings.ToLower(string(u)), "data:") && len(idx) > 2 {
			return // beyond two fragments only strings that start with the scheme
		}
		for _, p := range []urlPos{{"img", "src"}, {"a", "href"}, {"source", "src"}} {
			eval(dataSpecs, mk(p, u), string(u))
		}
	})
	nb := 4
	if !c.Quick() {
		nb = 5
	}
	BytesS(c, "urlb", urlBytes, 1, nb, func(u []byte) {
		for pi, p := range urlPositions {
			if len(u) == nb && pi >= 3 {
				break
			}
			eval(bs[:6], mk(p, u), string(u))
		}
	})
	if c.Shard == 0 {
		c.Notes["positions"] = float64(len(urlPositions))
		c.Notes["policies"] = float64(len(bs))
		c.Notes["url_alphabet"] = float64(len(urlAl))
	}
}

func replayC03(raw json.RawMessage) (bool, string) {
	cs, in := parseCase(raw)
	b := build(cs.Spec)
	out, pm := San(b.P, string(in))
	if pm != "" {
		return true, "panic: " + pm
	}
	sig, what := judgeC03(b.V, out)
	return sig != "", what + " output=" + run.Q(out)
}
