package checks

import (
	"encoding/json"
	"fmt"
	"regexp"
	"strings"
	"time"

	"golang.org/x/net/html"

	"verif/harness/internal/hooks"
	"verif/harness/internal/obs"
	"verif/harness/internal/run"
	"verif/harness/internal/spec"
)

// E2 — explicit-state search of the real token loop. Serves C08 and C09 (and
// re-checks the per-transition forms of C05 and C06 along the way).
//
// A state is what determines the future of the real sanitiser at a token
// boundary: the token loop's locals (read out of the running implementation by
// the VerifLoopState hook), the tokenizer mode (implied by the innermost open
// input element) and the stack of open input elements. Transitions feed one more
// token of a well-nested document. Successors are computed by running the real
// Sanitize on representative-path + token (no cloning of live objects).

func init() {
	common := "explicit-state breadth-first search over states of the real token loop: state = (token-loop locals read from the running implementation via the overlay hook, stack of open input elements (which fixes the tokenizer's raw-text mode), stack of elements the output leaves open (which the balance oracle depends on)); " +
		"transitions = feed one more token of a well-nested document over the grammar W (text with a unique marker; open / matching close of 18 element forms (incl. pattern-matched names with non-ASCII and quote characters): kept with attributes, kept bare, dropped for lack of attributes, disallowed, disallowed skip-content, pattern-allowed with and without AllowNoAttrs, RCDATA / raw-text, script, style; void and self-closing leaves, incl. a void element that is in the default skip set; comment), " +
		"nesting depth <=3 (thorough 4) and ANY document length (siblings collapse onto visited states); a complete skipped element must leave no trace (C08: if the loop state after it differs from the state before it, every continuation <X>text</X> and every leaf must behave as without it); one search per policy (17 policies: a pattern that matches skip-set names, every void element allowed with attributes only, AllowUnsafe with and without script allowed, default and modified skip sets, element patterns with and without AllowNoAttrs, iframe allowed with attributes only, space insertion, comments, un-skipped script/style). Successor = fresh run of the real Sanitize on the state's shortest path plus the token. "
	register(&run.Check{
		ID:    "C08",
		Level: "model_checking",
		Rule: common + "Oracle per transition: the output delta of a text token contains its marker iff no ancestor on the input stack is a disallowed skip-content element or script/style (ancestors that are in the skip set but allowed are don't-care); markup fed inside such a region produces no output (apart from the spaces of AddSpaceWhenStrippingTag); outside it a text token yields exactly its escaped form once. Depth probes: 4 ... 65537 nested skip-content elements (both sides of 128, 256, 2^15, 2^16) with a marker between the closers, followed by <b>after</b>, give exactly <b>after</b>. " +
			"non-trivial = transitions taken inside a skipped region." +
			" Default-table layer: each of the ten element names the statement lists as skipped by default (written out in the check, not read from the library) alone, inside a kept element and after another skipped element, with text and markup inside, under three policies relying on the default table.",
		Assumptions: []string{"if the overlay cannot locate the token loop the search falls back to plain enumeration of W-documents up to 6 tokens and reports exhaustive:false"},
		QuickBudget: 50, ThoroughBudget: 800,
		Run:    func(c *run.Ctx) { runE2(c, "C08") },
		Replay: func(raw json.RawMessage) (bool, string) { return replayE2(raw, "C08") },
	})
	register(&run.Check{
		ID:    "C09",
		Level: "model_checking",
		Rule: common + "Oracle: the stack-balance monitor over the re-tokenised output never sees a stray or mismatched end tag, and in every state with an empty input stack (a complete well-nested document) no output element is left open. " +
			"Two-call layer: after the same policy sanitised any fragment sequence of length <=3 (well nested or not), six well-nested documents still come out balanced. Raw-text layer: every removed raw-text element around tag-shaped text, inside and next to kept elements, leaves the output balanced. non-trivial = transitions that close an input element.",
		Assumptions: []string{"void elements follow the HTML list; self-closing tokens are leaves", "if the overlay cannot locate the token loop the search falls back to plain enumeration of W-documents up to 6 tokens and reports exhaustive:false"},
		QuickBudget: 50, ThoroughBudget: 800,
		Run:    func(c *run.Ctx) { runE2(c, "C09") },
		Replay: func(raw json.RawMessage) (bool, string) { return replayE2(raw, "C09") },
	})
}

type wTok struct {
	Kind string `json:"k"` // text | open | close | leaf
	El   string `json:"e,omitempty"`
	Text string `json:"t,omitempty"` // tag text for open/leaf
}

var wOpens = []wTok{
	{"open", "b", "<b>"}, {"open", "p", "<p>"}, {"open", "a", `<a href="http://e.x/">`}, {"open", "a", "<a>"}, {"open", "x", "<x>"},
	{"open", "object", "<object>"}, {"open", "iframe", "<iframe>"}, {"open", "iframe", "<iframe name=n>"}, {"open", "my-x", "<my-x id=a>"}, {"open", "my-y", "<my-y>"},
	{"open", "title", "<title>"}, {"open", "script", "<script>"}, {"open", "style", "<style>"}, {"open", "span", "<span id=q>"},
	{"open", "my-x\u00e9", "<my-x\u00e9>"}, {"open", "my-x\"q", "<my-x\"q>"},
	{"open", "frameset", "<frameset>"}, {"open", "object", "<object id=a>"},
}
var wLeaves = []wTok{
	{"leaf", "br", "<br>"}, {"leaf", "img", "<img>"}, {"leaf", "img", "<img src=x>"}, {"leaf", "br", "<br/>"}, {"leaf", "b", "<b/>"}, {"leaf", "x", "<x/>"}, {"leaf", "my-y", "<my-y/>"},
	{"leaf", "!", "<!-- c -->"}, {"leaf", "hr", "<hr>"},
	{"leaf", "frame", "<frame src=x>"}, // a void element that is in the default skip-content set
}

// wVoidLeaves: the remaining void elements; fed only under policies that give void elements rules of their own
// (elsewhere they are all the same disallowed leaf as <hr> above).
var wVoidLeaves = []wTok{
	{"leaf", "source", "<source>"}, {"leaf", "input", "<input>"}, {"leaf", "embed", "<embed>"}, {"leaf", "area", "<area>"}, {"leaf", "track", "<track>"},
	{"leaf", "link", "<link>"}, {"leaf", "meta", "<meta>"}, {"leaf", "param", "<param>"}, {"leaf", "base", "<base>"}, {"leaf", "col", "<col>"}, {"leaf", "wbr", "<wbr>"},
}

var rawEls = map[string]bool{"title": true, "script": true, "style": true, "iframe": true, "textarea": true, "xmp": true, "noscript": true, "noembed": true, "noframes": true, "plaintext": true}

func e2Specs() []spec.Spec {
	bare := []C{els("b", "p", "span"), attrsOn([]string{"href"}, "", "a"), attrsGlob([]string{"id"}, "")}
	w := func(name string, more ...C) spec.Spec {
		return spec.Spec{Name: name, Base: "new", Calls: append(append([]C{}, bare...), more...)}
	}
	return []spec.Spec{
		w("e2-default"),
		w("e2-skip-b", C{Op: "SkipElementsContent", Names: []string{"b", "x", "my-x\u00e9", "my-x\"q"}}),
		w("e2-skip-after-default", C{Op: "SkipElementsContent", Names: []string{"style", "x", "OBJECT", "my-y"}}, C{Op: "SkipElementsContent", Names: []string{"x", "span"}}, C{Op: "AllowElementsContent", Names: []string{"TITLE", "nosuch"}}),
		w("e2-keep-object", C{Op: "AllowElementsContent", Names: []string{"object", "title"}}),
		w("e2-pattern", C{Op: "AllowElementsMatching", Re: reMy}, attrsPat([]string{"id"}, "", reMy)),
		w("e2-pattern-bare", C{Op: "AllowNoAttrs", Scope: "matching", OnRe: reMy}, attrsPat([]string{"id"}, "", reMyX)),
		w("e2-iframe-attrs", attrsOn([]string{"name"}, "", "iframe"), els("title")),
		w("e2-spaces", opt("AddSpaceWhenStrippingTag", true), C{Op: "AllowNoAttrs", Scope: "matching", OnRe: reMyX}),
		w("e2-comments-unskip", C{Op: "AllowComments"}, C{Op: "AllowElementsContent", Names: []string{"script", "style", "iframe"}}, els("script", "style")),
		w("e2-pattern-lax", attrsPat([]string{"id"}, "", reMyX)),
		w("e2-pattern-skipnames", C{Op: "AllowNoAttrs", Scope: "matching", OnRe: `^(object|my-x)$`}, attrsPat([]string{"id"}, "", `^(object|iframe)$`)),
		w("e2-voids", attrsOn([]string{"src", "href", "name"}, "", "source", "input", "embed", "area", "track", "link", "meta", "param", "base", "col", "hr", "wbr", "img")),
		w("e2-unsafe", opt("AllowUnsafe", true)),
		w("e2-unsafe-script-allowed", opt("AllowUnsafe", true), els("script"), C{Op: "SkipElementsContent", Names: []string{"p"}}),
		{Name: "e2-ugc", Base: "ugc"},
		{Name: "e2-ugc-spaces", Base: "ugc", Calls: []C{opt("AddSpaceWhenStrippingTag", true)}},
		{Name: "e2-strict", Base: "strict"},
	}
}

type e2State struct {
	path  []wTok
	stack []string
	out   string
	skip  int // number of ancestors that are disallowed skip-content (or script/style)
	dc    int // number of don't-care ancestors (in the skip set but allowed)
}

func serialise(path []wTok) string {
	var b strings.Builder
	for i, t := range path {
		switch t.Kind {
		case "text":
			fmt.Fprintf(&b, "m%dm", i)
		case "open", "leaf":
			b.WriteString(t.Text)
		case "close":
			b.WriteString("</" + t.El + ">")
		}
	}
	return b.String()
}

type e2Runner struct {
	b      *built
	render func() string
}

func (r *e2Runner) run(doc string) (out, loop, pm string) {
	r.render = nil
	out, pm = San(r.b.P, doc)
	if r.render != nil {
		loop = r.render()
	}
	return
}

func skipClass(v *spec.View, el string) (skip, dontcare bool) {
	if (el == "script" || el == "style") && !v.Unsafe {
		return true, false
	}
	if v.Skip[el] {
		if v.ElementAllowed(el) {
			return false, true
		}
		return true, false
	}
	return false, false
}

type e2Case struct {
	Spec   spec.Spec `json:"spec"`
	Path   []wTok    `json:"path"`
	Doc    string    `json:"document"`
	Before *string   `json:"sanitised_before,omitempty"` // two-call layer: this document was sanitised first on the same policy
}

// c09Balance judges a complete, well-nested input document's output.
func c09Balance(out string) (string, string) {
	return judgeE2C09(&e2State{}, out)
}

var c09WellNested = []string{
	`<p><a href="/x"><span>t</span></a> and <b>m</b></p>`, `<a href="/x"><a>t</a></a>`, `<b><span>t</span><a>u</a></b>`, `<object><a>1</a></object><a href="/a">A</a>`,
	`<my-x id=a><my-y>t</my-y></my-x><b>u</b>`, `<p><b><a href="/x">t</a></b></p><p><a>v</a></p>`,
}

// c08Depth: nesting of skipped elements is honoured at depths beyond the search's bound (counter widths): n nested
// disallowed skip-content elements (one name, and two names alternating) around a marker, then text that must appear.
func c08Depth(c *run.Ctx) {
	b := build(specByName("ugc"))
	for _, n := range []int{4, 127, 128, 129, 255, 256, 257, 258, 300, 32769, 65537} {
		for vi, names := range [][]string{{"object"}, {"object", "frameset"}} {
			if !c.Own([]byte("c08depth"), []byte(fmt.Sprint(n, vi))) {
				continue
			}
			var sb strings.Builder
			for i := 0; i < n; i++ {
				sb.WriteString("<" + names[i%len(names)] + ">")
			}
			sb.WriteString("<b>inside</b>")
			for i := n - 1; i >= 0; i-- {
				sb.WriteString("</" + names[i%len(names)] + ">")
				if i == n-1 || i == n/2 {
					sb.WriteString("<b>still inside</b>") // after the innermost and a middle one have closed
				}
			}
			sb.WriteString("<b>after</b>")
			doc := sb.String()
			out, pm := San(b.P, doc)
			c.Eval()
			c.Transitions++
			c.Traces++
			c.NontrivialN++
			before := ""
			cs := e2Case{Spec: b.S, Doc: doc, Before: &before}
			switch {
			case pm != "":
				c.Violate("panic", "Sanitize panicked: "+pm, cs)
			case out != "<b>after</b>":
				c.Violate("depth|"+fmt.Sprint(n), fmt.Sprintf("%d nested disallowed skip-content elements around <b>inside</b>, then <b>after</b>: output %s, expected only <b>after</b>", n, run.Q(tail(out, 200))), cs)
				c.Outcome("violation|depth")
			default:
				c.Outcome("deep-nesting-honoured")
			}
		}
	}
}

func tail(s string, n int) string {
	if len(s) <= n {
		return s
	}
	return "..." + s[len(s)-n:]
}

// c09RawText: raw-text / RCDATA elements whose text looks like tags. For the tokenizer (and a browser) the text is
// text, so these documents are well nested; whatever the policy does with the element, the output must be balanced.
func c09RawText(c *run.Ctx) {
	var bs []built
	for _, s := range e2Specs() {
		switch s.Name {
		case "e2-default", "e2-ugc", "e2-iframe-attrs", "e2-spaces", "e2-keep-object":
			bs = append(bs, build(s))
		}
	}
	for _, raw := range []string{"textarea", "title", "xmp", "iframe", "noscript", "noembed", "noframes", "plaintext"} {
		for _, inner := range []string{"x </b> y", "</p>", "<b>", "</span></b>", "<a href=\"http://e.x/\">", "</i></p></b>"} {
			for _, wrap := range [][2]string{{"<b>", "</b>"}, {"<p><span id=q>", "</span></p>"}, {"", ""}} {
				doc := wrap[0] + "<" + raw + ">" + inner + "</" + raw + ">" + wrap[1]
				if raw == "plaintext" {
					doc = wrap[0] + "<" + raw + ">" + inner // never ends
					if wrap[0] != "" {
						continue
					}
				}
				for i := range bs {
					b := &bs[i]
					if !c.Own([]byte("c09raw"+b.S.Name), []byte(doc)) {
						continue
					}
					out, pm := San(b.P, doc)
					c.Eval()
					c.Transitions++
					c.Traces++
					c.NontrivialN++
					if pm != "" {
						continue
					}
					if sig, what := c09Balance(out); sig != "" {
						before := ""
						c.Violate("raw-text|"+sig, fmt.Sprintf("%s; policy=%s document=%s output=%s", what, b.S.Name, run.Q(doc), run.Q(out)), e2Case{Spec: b.S, Doc: doc, Before: &before})
						c.Outcome("violation|raw-text")
						continue
					}
					c.Outcome("raw-text-balanced")
				}
			}
		}
	}
}

// c09TwoCalls: the balance of a well-nested document's output does not depend on what the policy sanitised before
// (any fragment sequence of length <=3, well nested or not).
func c09TwoCalls(c *run.Ctx) {
	var bs []built
	for _, s := range e2Specs() {
		switch s.Name {
		case "e2-default", "e2-pattern-bare", "e2-ugc", "e2-spaces":
			bs = append(bs, build(s))
		}
	}
	k := 3
	SeqsS(c, "c09two", fragCore, 1, k, func(x []byte, _ []int) {
		for i := range bs {
			b := &bs[i]
			if _, pm := San(b.P, string(x)); pm != "" {
				continue // panics are C14's subject
			}
			for _, y := range c09WellNested {
				out, pm := San(b.P, y)
				c.Eval()
				c.Transitions++
				c.Traces++
				c.NontrivialN++
				if pm != "" {
					continue
				}
				if sig, what := c09Balance(out); sig != "" {
					before := string(x)
					c.Violate("after-earlier-call|"+sig, fmt.Sprintf("%s; policy=%s document=%s output=%s after the same policy sanitised %s", what, b.S.Name, run.Q(y), run.Q(out), run.Q(before)),
						e2Case{Spec: b.S, Doc: y, Before: &before})
					c.Outcome("violation|after-earlier-call")
					continue
				}
				c.Outcome("balanced-after-earlier-call")
			}
		}
	})
}

// c08DefaultTable: each element the statement names as skipped by default (plus frame, which the documentation of
// SkipElementsContent lists too), written out here rather than read from the library, really is skipped when the policy
// does not allow it: its text and nested markup vanish, what stands before and after it stays. Alone, inside a kept
// element, and after another skipped element; three policy bases that rely on the default table.
func c08DefaultTable(c *run.Ctx) {
	defaults := []string{"script", "style", "iframe", "object", "title", "noscript", "noembed", "noframes", "frameset", "nostyle"}
	for _, sn := range []string{"ugc", "strict", "e2-default"} {
		var b built
		if sn == "e2-default" {
			for _, s := range e2Specs() {
				if s.Name == sn {
					b = build(s)
				}
			}
		} else {
			b = build(specByName(sn))
		}
		keeps := sn != "strict"
		for _, el := range defaults {
			for vi, inner := range []string{"HIDDEN", "<b>HIDDEN</b>", "x<p>HIDDEN</p>y HIDDEN"} {
				for wi, wrap := range [][2]string{{"", ""}, {"<p>", "</p>"}, {"<object>q</object>", ""}} {
					if !c.Own([]byte("c08table"+sn), []byte(fmt.Sprint(el, vi, wi))) {
						continue
					}
					doc := "<b>BEFORE</b>" + wrap[0] + "<" + el + ">" + inner + "</" + el + ">" + wrap[1] + "<b>AFTER</b>"
					out, pm := San(b.P, doc)
					c.Eval()
					c.Transitions++
					c.Traces++
					c.NontrivialN++
					before := ""
					cs := e2Case{Spec: b.S, Doc: doc, Before: &before}
					wantB, wantA := "BEFORE", "AFTER"
					if keeps {
						wantB, wantA = "<b>BEFORE</b>", "<b>AFTER</b>"
					}
					switch {
					case pm != "":
						c.Violate("panic", "Sanitize panicked: "+pm, cs)
					case strings.Contains(out, "HIDDEN"):
						c.Violate("default-table|"+el, fmt.Sprintf("content of disallowed <%s> (skipped by default) appears in the output; policy=%s document=%s output=%s", el, b.S.Name, run.Q(doc), run.Q(out)), cs)
						c.Outcome("violation|default-table")
					case !strings.Contains(out, wantB) || !strings.Contains(out, wantA):
						c.Violate("default-table-outside|"+el, fmt.Sprintf("text outside a skipped <%s> is missing; policy=%s document=%s output=%s", el, b.S.Name, run.Q(doc), run.Q(out)), cs)
						c.Outcome("violation|default-table")
					default:
						c.Outcome("default-skip-element-honoured")
					}
				}
			}
		}
	}
}

func runE2(c *run.Ctx, prop string) {
	specs := e2Specs()
	depth := 3
	if !c.Quick() {
		depth = 4
	}
	if !hooks.Available {
		c.Cap("binary built without the instrumentation overlay: state = input stack only, documents bounded to 6 tokens")
	}
	if prop == "C09" {
		c09TwoCalls(c)
		c09RawText(c)
	}
	if prop == "C08" {
		c08Depth(c)
		c08DefaultTable(c)
	}
	// every policy of the family is built in every shard (and in the replay), in this order, before any search starts:
	// constructing or extending one policy must not change another (shared default tables would show here)
	all := buildAll(specs)
	for si, s := range specs {
		if si%c.NShards != c.Shard {
			continue
		}
		b := all[si]
		r := &e2Runner{b: &b}
		hooks.SetLoopState(func(render func() string) { r.render = render })
		t0 := time.Now()
		e2Search(c, prop, r, depth)
		c.Notes["seconds_"+s.Name] = float64(int(time.Since(t0).Seconds()*10)) / 10
		hooks.SetLoopState(nil)
	}
	if c.Shard == 0 {
		c.Notes["policies"] = float64(len(specs))
		c.Notes["nesting_depth"] = float64(depth)
		c.Notes["loop_state_hook"] = fmt.Sprint(hooks.Available)
	}
}

func e2Search(c *run.Ctx, prop string, r *e2Runner, depth int) {
	v := r.b.V
	out0, loop0, pm := r.run("")
	_ = out0
	if pm != "" {
		c.Violate("panic", "panic on empty input: "+pm, e2Case{Spec: r.b.S})
		return
	}
	haveLoop := false
	loopInit := ""
	// an empty document short-circuits before the loop, so probe with one text token
	if hooks.Available {
		_, l, _ := r.run("t")
		haveLoop = l != ""
		loopInit = l
		if !haveLoop {
			c.Cap("token loop not located by the overlay: state = input stack only, documents bounded to 6 tokens")
		}
	}
	voidRules := false
	for _, l := range wVoidLeaves {
		if v.ElementAllowed(l.El) {
			voidRules = true
		}
	}
	seen := map[string]bool{}
	capped := false
	key := func(loop string, stack []string, n int) string {
		if haveLoop {
			return loop + "|" + strings.Join(stack, ">")
		}
		// stateless fallback: every path is its own state, bounded by length
		return fmt.Sprint(n) + "#" + loop
	}
	root := &e2State{}
	seen[key(loop0, nil, 0)] = true
	c.States++
	frontier := []*e2State{root}
	maxLen := 1 << 30
	if !haveLoop {
		maxLen = 6
	}
	for len(frontier) > 0 && !c.Expired() {
		var next []*e2State
		for _, st := range frontier {
			if c.Expired() {
				break
			}
			// enabled tokens
			var toks []wTok
			top := ""
			if len(st.stack) > 0 {
				top = st.stack[len(st.stack)-1]
			}
			toks = append(toks, wTok{Kind: "text"})
			if top != "" {
				toks = append(toks, wTok{Kind: "close", El: top})
			}
			if !rawEls[top] {
				toks = append(toks, wLeaves...)
				if voidRules {
					toks = append(toks, wVoidLeaves...)
				}
				if len(st.stack) < depth {
					toks = append(toks, wOpens...)
				}
			}
			for _, tk := range toks {
				path := append(append([]wTok{}, st.path...), tk)
				if len(path) > maxLen {
					continue
				}
				doc := serialise(path)
				c.Trace(func() string { return r.b.S.String() + "\n" + run.Q(doc) })
				out, loop, pm := r.run(doc)
				c.Eval()
				c.Transitions++
				c.Traces++
				cs := e2Case{Spec: r.b.S, Path: path, Doc: doc}
				if pm != "" {
					c.Violate("panic", "Sanitize panicked: "+pm+" on "+run.Q(doc), cs)
					continue
				}
				ns := &e2State{path: path, stack: st.stack, out: out, skip: st.skip, dc: st.dc}
				if !strings.HasPrefix(out, st.out) {
					// not a violation of C08/C09 by itself, but the delta is undefined: judge the whole output only
					ns.out = out
				}
				delta := strings.TrimPrefix(out, st.out)
				switch tk.Kind {
				case "open":
					ns.stack = append(append([]string{}, st.stack...), tk.El)
					sk, dc := skipClass(v, tk.El)
					if sk {
						ns.skip++
					}
					if dc {
						ns.dc++
					}
				case "close":
					ns.stack = append([]string{}, st.stack[:len(st.stack)-1]...)
					sk, dc := skipClass(v, tk.El)
					if sk {
						ns.skip--
					}
					if dc {
						ns.dc--
					}
				}
				sig, what := "", ""
				if prop == "C08" {
					sig, what = judgeE2C08(v, st, ns, tk, len(path)-1, delta)
					if st.skip > 0 {
						c.NontrivialN++
					}
				} else {
					sig, what = judgeE2C09(ns, out)
					if tk.Kind == "close" {
						c.NontrivialN++
					}
				}
				if sig == "" && prop == "C08" && haveLoop && tk.Kind == "close" && st.skip == 1 && ns.skip == 0 {
					sig, what = e2Transparency(c, r, path, out, loop, loopInit)
				}
				if sig != "" {
					c.Violate(sig, fmt.Sprintf("%s; policy=%s document=%s output=%s", what, r.b.S.Name, run.Q(doc), run.Q(out)), cs)
					c.Outcome("violation|" + sig)
					continue // do not extend a violating path
				}
				// The future of the token loop depends on its locals and the input stack only, but the balance oracle
				// looks at the output as a whole: two paths may be merged only if they also leave the same elements
				// open in the output.
				k := key(loop, ns.stack, len(path)) + "|" + strings.Join(outputOpenStack(out), ">")
				if !haveLoop {
					k = doc
				}
				if seen[k] {
					c.Outcome("transition-to-visited-state")
					continue
				}
				if len(seen) >= e2MaxStates {
					if !capped {
						capped = true
						c.Cap(fmt.Sprintf("policy %s: more than %d distinct token-loop states (does the loop state vary with every call?); search stopped widening", r.b.S.Name, e2MaxStates))
					}
					continue
				}
				seen[k] = true
				c.States++
				c.Outcome("new-state")
				if c.WantSample() && len(path) >= 4 {
					c.Sample(map[string]string{"policy": r.b.S.Name, "document": doc, "output": out, "loop_state": loop, "input_stack": strings.Join(ns.stack, ">")})
				}
				next = append(next, ns)
			}
		}
		frontier = next
	}
}

var (
	reMRST   = regexp.MustCompile(`mostRecentlyStartedToken="(?:[^"\\]|\\.)*"`)
	reMarker = regexp.MustCompile(`m[0-9]+m`)
)

// e2Transparency: a complete skipped element leaves no trace. path ends with the close token of an outermost
// disallowed skip-content element. If the token loop's state now differs from its state just before that element
// was opened (ignoring the raw-text bookkeeping of mostRecentlyStartedToken, which C05 covers), the difference is
// judged by behaviour: every continuation <X>text</X> over the open-tag alphabet, and every leaf, must produce
// the same output after the skipped element as it does without it.
func e2Transparency(c *run.Ctx, r *e2Runner, path []wTok, out, loop, loopInit string) (string, string) {
	j, d := -1, 0
	for i := len(path) - 1; i >= 0; i-- {
		switch path[i].Kind {
		case "close":
			d++
		case "open":
			d--
		}
		if d == 0 {
			j = i
			break
		}
	}
	if j < 0 {
		return "", ""
	}
	prefix := path[:j]
	outP, loopP := "", loopInit
	if j > 0 {
		var pm string
		outP, loopP, pm = r.run(serialise(prefix))
		if c != nil {
			c.Eval()
		}
		if pm != "" {
			return "", ""
		}
	}
	if reMRST.ReplaceAllString(loop, "") == reMRST.ReplaceAllString(loopP, "") {
		return "", ""
	}
	var conts [][]wTok
	for _, o := range wOpens {
		if rawEls[o.El] {
			continue
		}
		conts = append(conts, []wTok{o, {Kind: "text"}, {Kind: "close", El: o.El}})
	}
	for _, l := range wLeaves {
		conts = append(conts, []wTok{l})
	}
	for _, ct := range conts {
		a, _, pm1 := r.run(serialise(append(append([]wTok{}, prefix...), ct...)))
		b, _, pm2 := r.run(serialise(append(append([]wTok{}, path...), ct...)))
		if c != nil {
			c.Eval()
		}
		if pm1 != "" || pm2 != "" {
			continue
		}
		da := reMarker.ReplaceAllString(strings.TrimPrefix(a, outP), "M")
		db := reMarker.ReplaceAllString(strings.TrimPrefix(b, out), "M")
		if strings.TrimSpace(da) != strings.TrimSpace(db) {
			return "outside-affected", fmt.Sprintf("content after a complete skipped element is treated differently than without it: %s yields %s here but %s when the skipped element is absent",
				run.Q(serialise(ct)), run.Q(db), run.Q(da))
		}
	}
	return "", ""
}

// e2MaxStates bounds the visited set of one policy's search (the clean tree stays below 200k at depth 4).
const e2MaxStates = 1500000

func onlySpaces(s string) bool { return strings.Trim(s, " ") == "" }

func judgeE2C08(v *spec.View, st, ns *e2State, tk wTok, idx int, delta string) (string, string) {
	marker := fmt.Sprintf("m%dm", idx)
	inSkip := st.skip > 0
	top := ""
	if len(st.stack) > 0 {
		top = st.stack[len(st.stack)-1]
	}
	switch tk.Kind {
	case "text":
		if inSkip {
			if strings.Contains(delta, marker) {
				return "leak|text", "text inside a disallowed skip-content element appears in the output"
			}
			if !onlySpaces(delta) {
				return "leak|other", "feeding text inside a skipped region produced output " + run.Q(delta)
			}
			return "", ""
		}
		if st.dc > 0 {
			return "", ""
		}
		if top == "script" || top == "style" {
			return "", "" // AllowUnsafe territory or un-skipped: C05's subject
		}
		if delta != marker {
			return "lost|text", fmt.Sprintf("text outside any skipped region should appear once and unchanged (%s) but the output delta is %s", marker, run.Q(delta))
		}
	default:
		// inside a skipped region nothing may come out; neither may the start tag that opens one
		if inSkip || ns.skip > st.skip {
			if !onlySpaces(delta) {
				return "leak|markup", "markup fed inside (or opening) a skipped region produced output " + run.Q(delta)
			}
		}
	}
	return "", ""
}

// outputOpenStack: the elements the output leaves open (as the balance monitor reads it).
func outputOpenStack(out string) []string {
	var stk []string
	for _, t := range obs.Retok(out) {
		switch t.Type {
		case html.StartTagToken:
			if !obs.IsVoid(t.Name) {
				stk = append(stk, t.Name)
			}
		case html.EndTagToken:
			if !obs.IsVoid(t.Name) && len(stk) > 0 {
				stk = stk[:len(stk)-1]
			}
		}
	}
	return stk
}

func judgeE2C09(ns *e2State, out string) (string, string) {
	toks := obs.Retok(out)
	var stk []string
	for _, t := range toks {
		switch t.Type {
		case html.StartTagToken:
			if !obs.IsVoid(t.Name) {
				stk = append(stk, t.Name)
			}
		case html.EndTagToken:
			if obs.IsVoid(t.Name) {
				continue
			}
			if len(stk) == 0 {
				return "stray-end-tag", "output contains stray end tag </" + t.Name + "> although the input is well nested"
			}
			if stk[len(stk)-1] != t.Name {
				return "mismatched-end-tag", "output closes </" + t.Name + "> while <" + stk[len(stk)-1] + "> is open although the input is well nested"
			}
			stk = stk[:len(stk)-1]
		}
	}
	if len(ns.stack) == 0 && len(stk) > 0 {
		return "unclosed", "input document is complete and well nested but output leaves <" + stk[len(stk)-1] + "> open"
	}
	// while input elements are open the output may have open elements, but never more than the input has
	if len(stk) > len(ns.stack) {
		return "unclosed", fmt.Sprintf("output has %d open elements while the input has %d", len(stk), len(ns.stack))
	}
	return "", ""
}

func replayE2(raw json.RawMessage, prop string) (bool, string) {
	var cs e2Case
	json.Unmarshal(raw, &cs)
	b := build(cs.Spec)
	// as in the run: the whole family is built first, in the same order, and the policy under test is the one built
	// at its place in that order
	for _, fs := range buildAll(e2Specs()) {
		if fs.S.Name == cs.Spec.Name && fs.S.String() == cs.Spec.String() {
			b = fs
		}
	}
	if cs.Before != nil {
		San(b.P, *cs.Before)
		out, pm := San(b.P, cs.Doc)
		if pm != "" {
			return true, "panic: " + pm
		}
		if prop == "C08" {
			// the depth probes: only the text after the nested skipped elements may come out
			return out != "<b>after</b>", "deeply nested skipped elements: output " + run.Q(tail(out, 200)) + ", expected only <b>after</b>"
		}
		sig, what := c09Balance(out)
		return sig != "", what + " output=" + run.Q(out) + " after sanitising " + run.Q(*cs.Before)
	}
	r := &e2Runner{b: &b}
	hooks.SetLoopState(func(render func() string) { r.render = render })
	defer hooks.SetLoopState(nil)
	_, loopInit, _ := r.run("t")
	// replay the path token by token, exactly as the search did
	st := &e2State{}
	var lastSig, lastWhat string
	for i, tk := range cs.Path {
		path := cs.Path[:i+1]
		doc := serialise(path)
		out, loop, pm := r.run(doc)
		if pm != "" {
			return true, "panic: " + pm
		}
		ns := &e2State{path: path, stack: st.stack, out: out, skip: st.skip, dc: st.dc}
		delta := strings.TrimPrefix(out, st.out)
		switch tk.Kind {
		case "open":
			ns.stack = append(append([]string{}, st.stack...), tk.El)
			sk, dc := skipClass(b.V, tk.El)
			if sk {
				ns.skip++
			}
			if dc {
				ns.dc++
			}
		case "close":
			if len(st.stack) == 0 {
				return false, "malformed path"
			}
			ns.stack = append([]string{}, st.stack[:len(st.stack)-1]...)
			sk, dc := skipClass(b.V, tk.El)
			if sk {
				ns.skip--
			}
			if dc {
				ns.dc--
			}
		}
		if prop == "C08" {
			lastSig, lastWhat = judgeE2C08(b.V, st, ns, tk, i, delta)
			if lastSig == "" && loopInit != "" && tk.Kind == "close" && st.skip == 1 && ns.skip == 0 {
				lastSig, lastWhat = e2Transparency(nil, r, path, out, loop, loopInit)
			}
		} else {
			lastSig, lastWhat = judgeE2C09(ns, out)
		}
		if lastSig != "" {
			return true, lastWhat + " output=" + run.Q(out)
		}
		st = ns
	}
	return false, "path replays without violation"
}
