package checks

import (
	"encoding/json"
	"fmt"
	"strings"

	"golang.org/x/net/html"

	"verif/harness/internal/obs"
	"verif/harness/internal/run"
	"verif/harness/internal/spec"
)

// C12 — forced attributes: crossorigin=anonymous and iframe sandbox.

func init() {
	register(&run.Check{
		ID:    "C12",
		Level: "model_checking",
		Rule: "bounded-exhaustive: elements {audio, img, link, script (AllowUnsafe), video} x every attribute list <=4 (thorough 5) over {crossorigin valueless / empty / anonymous / use-credentials / other / upper-case name, another allowed attribute, a disallowed attribute}, " +
			"and iframe x every attribute list <=3 over sandbox values (token sequences mixing listed, unlisted-but-known and unknown tokens, duplicates, upper case, space / tab / newline separators), repeated attributes, another allowed attribute; " +
			"crossed with crossorigin / sandbox admitted by AllowAttrs per element, through an element pattern only, globally or not at all, with the sandbox list set once or twice (the last call decides), and with every subset of the fourteen sandbox values of size <=2 plus the full set (thorough: all 16384 subsets on the single-attribute layer). " +
			"Oracle: each listed media element emitted with >=1 attribute has >=1 crossorigin and all of them equal anonymous; each iframe emitted with attributes has sandbox and every sandbox attribute's tokens are a duplicate-free subset of the policy's list. non-trivial = a crossorigin / sandbox attribute was added or rewritten.",
		Assumptions: []string{"sandbox tokens are split on ASCII whitespace by the oracle"},
		QuickBudget: 50, ThoroughBudget: 800,
		Run:    runC12,
		Replay: replayC12,
	})
}

var mediaEls = []string{"audio", "img", "link", "script", "video"}

func c12BaseCalls(admit bool) []C {
	if admit {
		return c12BaseCallsMode(1)
	}
	return c12BaseCallsMode(0)
}

// mode: 0 = crossorigin / sandbox not admitted, 1 = admitted per element, 2 = through an element pattern, 3 = globally
func c12BaseCallsMode(mode int) []C {
	calls := []C{
		attrsOn([]string{"src", "title"}, "", "audio", "img", "script", "video", "iframe"),
		attrsOn([]string{"href", "title"}, "", "link"),
		opt("AllowUnsafe", true),
	}
	switch mode {
	case 1:
		calls = append(calls, attrsOn([]string{"crossorigin"}, "", "audio", "img", "link", "script", "video"), attrsOn([]string{"sandbox"}, "", "iframe"))
	case 2:
		// elements reachable through the pattern only (an explicit element rule would shadow the pattern's rules)
		calls = []C{opt("AllowUnsafe", true), attrsPat([]string{"src", "href", "title", "crossorigin", "sandbox"}, "", `^(audio|img|link|script|video|iframe)$`)}
	case 3:
		calls = append(calls, attrsGlob([]string{"crossorigin", "sandbox"}, ""))
	}
	return calls
}

func c12Specs(c *run.Ctx) (media, frames []built) {
	for admit := 0; admit < 2; admit++ {
		calls := append(c12BaseCalls(admit == 1), opt("RequireCrossOriginAnonymous", true))
		media = append(media, build(spec.Spec{Name: fmt.Sprintf("c12-co-admit%d", admit), Base: "new", Calls: calls}))
		calls2 := append(append([]C{}, calls...), opt("RequireCrossOriginAnonymous", false), opt("RequireCrossOriginAnonymous", true), C{Op: "AllowDataAttributes"})
		media = append(media, build(spec.Spec{Name: fmt.Sprintf("c12-co-toggled-admit%d", admit), Base: "new", Calls: calls2}))
	}
	for mode := 2; mode <= 3; mode++ {
		media = append(media, build(spec.Spec{Name: fmt.Sprintf("c12-co-admitmode%d", mode), Base: "new", Calls: append(c12BaseCallsMode(mode), opt("RequireCrossOriginAnonymous", true))}))
		for si, set := range [][]int{{}, {2, 10}} {
			frames = append(frames, build(spec.Spec{Name: fmt.Sprintf("c12-sb-admitmode%d-set%d", mode, si), Base: "new", Calls: append(c12BaseCallsMode(mode), C{Op: "RequireSandboxOnIFrame", Ints: set})}))
		}
	}
	// a zero-value Policy{} on which the forcing options are set before the first call that initialises the tables
	for admit := 0; admit < 2; admit++ {
		calls := append([]C{opt("RequireCrossOriginAnonymous", true), {Op: "RequireSandboxOnIFrame", Ints: []int{2, 10}}}, c12BaseCalls(admit == 1)...)
		b := build(spec.Spec{Name: fmt.Sprintf("c12-literal-options-first-admit%d", admit), Base: "literal", Calls: calls})
		media = append(media, b)
		frames = append(frames, b)
	}
	// both forcing options together, alone and next to link options (which run between them on the same attribute list;
	// relative URLs allowed so that href=x / src=x survive URL checking)
	for admit := 0; admit < 2; admit++ {
		for li, link := range [][]C{nil, {opt("RequireNoFollowOnLinks", true), opt("AllowRelativeURLs", true)},
			{opt("AddTargetBlankToFullyQualifiedLinks", true), opt("RequireNoReferrerOnFullyQualifiedLinks", true), opt("AllowRelativeURLs", true)}} {
			calls := append(c12BaseCalls(admit == 1), opt("RequireCrossOriginAnonymous", true), C{Op: "RequireSandboxOnIFrame", Ints: []int{2, 10}})
			calls = append(calls, link...)
			b := build(spec.Spec{Name: fmt.Sprintf("c12-both-link%d-admit%d", li, admit), Base: "new", Calls: calls})
			media = append(media, b)
			frames = append(frames, b)
		}
	}
	// the sandbox list set more than once: the last call decides
	for admit := 0; admit < 2; admit++ {
		for hi, h := range [][]C{
			{{Op: "RequireSandboxOnIFrame", Ints: []int{2, 10}}, {Op: "RequireSandboxOnIFrame", Ints: []int{5}}},
			{{Op: "RequireSandboxOnIFrame", Ints: []int{2, 10}}, {Op: "RequireSandboxOnIFrame"}},
			{{Op: "AllowIFrames", Ints: []int{2, 10, 11}}, {Op: "RequireSandboxOnIFrame", Ints: []int{2}}},
			{{Op: "RequireSandboxOnIFrame"}, {Op: "RequireSandboxOnIFrame", Ints: []int{0, 13}}},
		} {
			frames = append(frames, build(spec.Spec{Name: fmt.Sprintf("c12-sb-twice%d-admit%d", hi, admit), Base: "new", Calls: append(c12BaseCalls(admit == 1), h...)}))
		}
	}
	var sets [][]int
	sets = append(sets, []int{})
	for i := 0; i < 14; i++ {
		sets = append(sets, []int{i})
		for j := i + 1; j < 14; j++ {
			sets = append(sets, []int{i, j})
		}
	}
	full := []int{}
	for i := 0; i < 14; i++ {
		full = append(full, i)
	}
	sets = append(sets, full)
	for admit := 0; admit < 2; admit++ {
		for si, set := range sets {
			calls := append(c12BaseCalls(admit == 1), C{Op: "RequireSandboxOnIFrame", Ints: set})
			frames = append(frames, build(spec.Spec{Name: fmt.Sprintf("c12-sb-admit%d-set%d", admit, si), Base: "new", Calls: calls}))
		}
	}
	frames = append(frames, build(spec.Spec{Name: "c12-allowiframes", Base: "new", Calls: []C{{Op: "AllowIFrames", Ints: []int{2, 10}}, attrsOn([]string{"src"}, "", "iframe")}}))
	return
}

func judgeC12(v *spec.View, out string) (sig, what string, forced bool) {
	for _, t := range obs.Retok(out) {
		if t.Type != html.StartTagToken && t.Type != html.SelfClosingTagToken {
			continue
		}
		if len(t.Attr) == 0 {
			continue
		}
		if v.CrossOrigin {
			for _, m := range mediaEls {
				if t.Name != m {
					continue
				}
				cos := attrsNamed(t.Attr, "crossorigin")
				if len(cos) == 0 {
					return "crossorigin|missing|" + m, "<" + m + "> emitted with attributes but without crossorigin", true
				}
				forced = true
				for _, cv := range cos {
					if cv != "anonymous" {
						return "crossorigin|value", fmt.Sprintf("<%s> carries crossorigin=%s", m, run.Q(cv)), true
					}
				}
			}
		}
		if v.Sandbox != nil && t.Name == "iframe" {
			sbs := attrsNamed(t.Attr, "sandbox")
			if len(sbs) == 0 {
				return "sandbox|missing", "<iframe> emitted with attributes but without sandbox", true
			}
			forced = true
			for _, sv := range sbs {
				seen := map[string]bool{}
				for _, tk := range obs.RelTokens(sv) {
					if !v.Sandbox[tk] {
						return "sandbox|unlisted", fmt.Sprintf("<iframe> sandbox=%s contains token %q which the policy did not list", run.Q(sv), tk), true
					}
					if seen[tk] {
						return "sandbox|duplicate", fmt.Sprintf("<iframe> sandbox=%s repeats token %q", run.Q(sv), tk), true
					}
					seen[tk] = true
				}
			}
		}
	}
	return "", "", forced
}

var c12MediaAttrs = []string{` crossorigin`, ` crossorigin=""`, ` crossorigin=anonymous`, ` crossorigin=use-credentials`, ` crossorigin=x`,
	` CROSSORIGIN=y`, ` src=x`, ` href=x`, ` title=t`, ` onclick=x`, ` data-k=v`}

var c12FrameAttrs = []string{` sandbox`, ` sandbox="allow-forms"`, ` sandbox="allow-forms allow-scripts"`, ` sandbox="allow-forms&#9;allow-forms"`,
	` sandbox="allow-popups bogus"`, ` sandbox="ALLOW-FORMS&#10;allow-scripts"`, ` sandbox="allow-scripts allow-forms allow-scripts"`,
	` sandbox="allow-downloads allow-top-navigation-by-user-activation allow-same-origin"`, ` src=x`, ` title=t`, ` onclick=x`,
	` sandbox="` + strings.Join(spec.SandboxNames, " ") + `"`, ` sandbox="allow-forms&#11;allow-scripts"`, ` sandbox="allow-forms ALLOW-FORMS"`, ` sandbox="allow-pointer-loc\u212a allow-scripts"`, ` sandbox="allow-forms&nbsp;allow-scripts&#x3000;allow-forms"`}

func runC12(c *run.Ctx) {
	media, frames := c12Specs(c)
	run1 := func(set []built, doc string) {
		c.States++
		for i := range set {
			b := &set[i]
			c.Trace(func() string { return b.S.String() + "\n" + run.Q(doc) })
			out, pm := San(b.P, doc)
			c.Eval()
			c.Transitions++
			c.Traces++
			if pm != "" {
				c.Violate("panic", "Sanitize panicked: "+pm, mkCase(b.S, []byte(doc)))
				continue
			}
			sig, what, forced := judgeC12(b.V, out)
			if forced {
				c.Nontrivial([]byte(b.S.Name), []byte(doc))
			}
			if sig != "" {
				c.Violate(sig, fmt.Sprintf("%s; policy=%s input=%s output=%s", what, b.S.Name, run.Q(doc), run.Q(out)), mkCase(b.S, []byte(doc)))
				c.Outcome("violation|" + sig)
				continue
			}
			switch {
			case out == "" || !strings.Contains(out, "<"):
				c.Outcome("tag-dropped")
			case !forced:
				c.Outcome("emitted-bare-or-not-subject")
			default:
				c.Outcome("forced-attribute-present")
				if c.WantSample() && strings.Count(doc, "=") >= 2 {
					c.Sample(map[string]string{"policy": b.S.Name, "input": doc, "output": out})
				}
			}
		}
	}
	k := 4
	if !c.Quick() {
		k = 5
	}
	kf := 3
	if !c.Quick() {
		kf = 4
	}
	for _, el := range mediaEls {
		for _, sc := range []string{">", "/>"} {
			SeqsS(c, "c12"+el+sc, c12MediaAttrs, 0, k, func(attrs []byte, _ []int) { run1(media, "<"+el+string(attrs)+sc) })
		}
	}
	SeqsS(c, "c12iframe", c12FrameAttrs, 0, kf, func(attrs []byte, idx []int) {
		set := frames
		if len(idx) == 4 {
			set = nil
			for i := range frames {
				if i%7 == int(attrs[len(attrs)-1])%7 || i >= len(frames)-3 {
					set = append(set, frames[i])
				}
			}
		}
		run1(set, "<iframe"+string(attrs)+"></iframe>")
	})
	if !c.Quick() {
		// all 16384 subsets on the single-attribute layer
		for mask := 0; mask < 1<<14; mask++ {
			if c.Expired() {
				break
			}
			if mask%c.NShards != c.Shard {
				continue
			}
			var set []int
			for i := 0; i < 14; i++ {
				if mask&(1<<i) != 0 {
					set = append(set, i)
				}
			}
			b := build(spec.Spec{Name: fmt.Sprintf("c12-sb-mask%d", mask), Base: "new", Calls: append(c12BaseCalls(true), C{Op: "RequireSandboxOnIFrame", Ints: set})})
			for _, a := range c12FrameAttrs {
				run1([]built{b}, "<iframe"+a+"></iframe>")
			}
			run1([]built{b}, "<iframe sandbox=\""+strings.Join(spec.SandboxNames, " ")+"\"></iframe>")
		}
	}
	if c.Shard == 0 {
		c.Notes["media_policies"] = float64(len(media))
		c.Notes["iframe_policies"] = float64(len(frames))
	}
}

func replayC12(raw json.RawMessage) (bool, string) {
	cs, in := parseCase(raw)
	b := build(cs.Spec)
	out, pm := San(b.P, string(in))
	if pm != "" {
		return true, "panic: " + pm
	}
	sig, what, _ := judgeC12(b.V, out)
	return sig != "", what + " output=" + run.Q(out)
}
