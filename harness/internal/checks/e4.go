package checks

import (
	"bufio"
	"bytes"
	"encoding/json"
	"errors"
	"fmt"
	"io"
	"os"
	"os/exec"
	"strings"

	"github.com/microcosm-cc/bluemonday"

	"verif/harness/internal/run"
	"verif/harness/internal/spec"
)

// E4 — environment / fault enumerator: reader chunkings, writer kinds, write
// faults at every index, read faults at every offset. Serves C15 and C16.

func init() {
	register(&run.Check{
		ID:    "C15",
		Level: "fault_enumeration",
		Rule: "exhaustive environment enumeration: inputs = every sequence of <=2 fragments over F (all chunkings) and every sequence of 3 over a 30-fragment core (reduced chunkings) x 8 policies; for each input of n bytes every subset of split points when n<=8 (2^(n-1) chunkings), otherwise every chunking with <=2 split points (<=1 beyond 24 bytes), plus one byte at a time; " +
			"each chunking also with a zero-length read before every chunk and with the last chunk delivered together with io.EOF; x destination {bytes.Buffer (has WriteString), plain io.Writer}; plus a 10 000-byte input with every single split point in a 64-byte window around each 4096-byte tokenizer refill. " +
			"Oracle: Sanitize, SanitizeBytes, SanitizeReader and SanitizeReaderToWriter give identical bytes for every non-blank input under every environment; blank input is returned identical by Sanitize and SanitizeBytes; the caller's []byte is unchanged; results already returned (the slice of SanitizeBytes, the buffer of SanitizeReader) still read the same after the policy sanitised a different document through every entry point; a seekable reader from which a prefix was already read yields the result for the remaining suffix; the two cmd binaries (built from /repo) print exactly the harness's reconstruction of their documented policy applied with Sanitize, on every short stdin document and on 64 KiB, 1 MiB + 1 and 3 MiB of stdin. " +
			"non-trivial = distinct (policy, input, environment) runs whose input contains markup and was split at least once." +
			" Single tokens of 511 ... 200000 bytes (text, attribute value, comment), whole and split in the middle, into both kinds of destination.",
		Assumptions: []string{"the cmd binaries are built by bin/check from /repo's working tree into the per-run work directory"},
		QuickBudget: 50, ThoroughBudget: 800,
		Run:    runC15,
		Replay: replayC15,
	})
	register(&run.Check{
		ID:    "C16",
		Level: "fault_enumeration",
		Rule: "exhaustive fault enumeration: inputs = every sequence of <=3 (quick: 3 over a 30-fragment core) fragments over F x policies {comments on/off, space insertion on/off, AllowUnsafe script/style text, element patterns, UGC}; the fault-free write sequence w_1..w_m is recorded, then for every k<=m and each fault kind (only w_k fails; w_k and all later fail; w_k accepts half and fails) and both writer kinds the run is repeated (the injected error rotates through five values: generic, io.EOF, io.ErrShortWrite, io.ErrClosedPipe, a timeout; all five at the first write); " +
			"and for every byte offset j<=n the reader delivers data[:j] and then a non-EOF error (six kinds: generic, io.ErrUnexpectedEOF, io.ErrClosedPipe, io.ErrNoProgress, a timeout error, a wrapped error), into a bytes.Buffer and into a *bufio.Writer (a destination with Flush() error); every buffer SanitizeReader hands back is written into, as a caller may. Oracle: the returned error is non-nil, the writer sees no call after the failing one, the accepted bytes are a prefix of the fault-free output, SanitizeReader returns an empty buffer on reader failure. " +
			"non-trivial = distinct (policy, input, fault) runs in which the fault was actually reached." +
			" A policy that removes script / style but writes their text back escaped (AllowUnsafe + AllowElementsContent) is in the family.",
		Assumptions: []string{"faults are injected at the io.Reader / io.Writer seam of the exported API only"},
		QuickBudget: 50, ThoroughBudget: 800,
		Run:    runC16,
		Replay: replayC16,
	})
}

// ---- environment pieces -------------------------------------------------------------

type chunkReader struct {
	data    []byte
	cuts    []int // ascending split offsets in (0,len)
	zero    bool  // deliver a zero-length read before every chunk
	eofLast bool  // deliver io.EOF together with the last chunk
	pos     int
	ci      int
	zeroed  bool
	failAt  int // >=0: after delivering data[:failAt] return failErr
	failErr error
}

func (r *chunkReader) Read(p []byte) (int, error) {
	if r.failErr != nil && r.pos >= r.failAt {
		return 0, r.failErr
	}
	if r.pos >= len(r.data) {
		return 0, io.EOF
	}
	if r.zero && !r.zeroed {
		r.zeroed = true
		return 0, nil
	}
	r.zeroed = false
	end := len(r.data)
	for r.ci < len(r.cuts) && r.cuts[r.ci] <= r.pos {
		r.ci++
	}
	if r.ci < len(r.cuts) {
		end = r.cuts[r.ci]
	}
	if r.failErr != nil && r.failAt < end {
		end = r.failAt
	}
	n := copy(p, r.data[r.pos:end])
	r.pos += n
	if r.pos >= len(r.data) && r.eofLast && r.failErr == nil {
		return n, io.EOF
	}
	return n, nil
}

type plainWriter struct{ w io.Writer }

func (p plainWriter) Write(b []byte) (int, error) { return p.w.Write(b) }

var errBoom = errors.New("injected fault")

// faultWriter records writes and injects a fault at write index failAt (0-based).
// writeErrKinds: what a destination may fail with.
var writeErrKinds = []error{errBoom, io.EOF, io.ErrShortWrite, io.ErrClosedPipe, timeoutErr{}}

type faultWriter struct {
	failErr    error
	buf        bytes.Buffer
	calls      int
	failAt     int // -1 = never
	kind       int // 0 only that write fails, 1 that and all later fail, 2 that write accepts half then fails
	afterFault int // calls seen after the first failing call
	failed     bool
	sizes      []int
}

func (f *faultWriter) Write(b []byte) (int, error) {
	i := f.calls
	f.calls++
	f.sizes = append(f.sizes, len(b))
	if f.failed {
		f.afterFault++
	}
	if f.failAt >= 0 && (i == f.failAt || (f.kind == 1 && i > f.failAt)) {
		f.failed = true
		e := f.failErr
		if e == nil {
			e = errBoom
		}
		if f.kind == 2 && i == f.failAt {
			h := len(b) / 2
			f.buf.Write(b[:h])
			return h, e
		}
		return 0, e
	}
	f.buf.Write(b)
	return len(b), nil
}

// faultStringWriter is faultWriter with a WriteString method.
type faultStringWriter struct{ faultWriter }

func (f *faultStringWriter) WriteString(s string) (int, error) { return f.Write([]byte(s)) }

// ---- C15 ---------------------------------------------------------------------------------

type c15Env struct {
	Cuts    []int `json:"cuts"`
	Zero    bool  `json:"zero_reads"`
	EOFLast bool  `json:"eof_with_last"`
	Plain   bool  `json:"plain_writer"`
}

func runEnv(p *bluemonday.Policy, in []byte, e c15Env) (out []byte, err error, pm string) {
	defer func() {
		if r := recover(); r != nil {
			pm = fmt.Sprint(r)
		}
	}()
	r := &chunkReader{data: in, cuts: e.Cuts, zero: e.Zero, eofLast: e.EOFLast, failAt: -1}
	var buf bytes.Buffer
	if e.Plain {
		err = p.SanitizeReaderToWriter(r, plainWriter{&buf})
	} else {
		err = p.SanitizeReaderToWriter(r, &buf)
	}
	return buf.Bytes(), err, ""
}

func c15Specs() []built {
	return buildAll(specsByName("ugc", "bpbr", "bpbr-spaces", "bpbr-comments", "pattern-bare", "rawtext", "cmd-email", "strict"))
}

func blank(s string) bool { return strings.TrimSpace(s) == "" }

// judgeC15Base compares the three non-streaming entry points.
func judgeC15Base(b *built, in []byte) (ref []byte, sig, what string) {
	s := string(in)
	o1, pm := San(b.P, s)
	if pm != "" {
		return nil, "panic", "Sanitize panicked: " + pm
	}
	cp := append([]byte{}, in...)
	var o2 []byte
	func() {
		defer func() {
			if r := recover(); r != nil {
				pm = fmt.Sprint(r)
			}
		}()
		o2 = b.P.SanitizeBytes(cp)
	}()
	if pm != "" {
		return nil, "panic", "SanitizeBytes panicked: " + pm
	}
	if !bytes.Equal(cp, in) {
		return nil, "input-modified", "SanitizeBytes modified the caller's buffer"
	}
	if blank(s) {
		if o1 != s || !bytes.Equal(o2, in) {
			return nil, "blank", fmt.Sprintf("whitespace-only input %s not returned unchanged (Sanitize=%s SanitizeBytes=%s)", run.Q(s), run.Q(o1), run.Q(string(o2)))
		}
		return nil, "", ""
	}
	if string(o2) != o1 {
		return nil, "bytes-vs-string", fmt.Sprintf("SanitizeBytes=%s differs from Sanitize=%s", run.Q(string(o2)), run.Q(o1))
	}
	// a result already handed out stays what it was when the policy goes on to sanitise something else (checked
	// here, right after SanitizeBytes, and again below after SanitizeReader)
	other := "<i>another</i> document: " + s[len(s)/2:] + s[:len(s)/2] + " <b>end</b>"
	func() {
		defer func() { recover() }()
		b.P.SanitizeBytes([]byte(other))
		b.P.Sanitize(other)
	}()
	if string(o2) != o1 {
		return nil, "result-overwritten|bytes", fmt.Sprintf("the slice SanitizeBytes returned for %s read %s at first and %s after the policy sanitised another document", run.Q(s), run.Q(o1), run.Q(string(o2)))
	}
	// (after the first retained-result guard: a buffer this call takes over must not hide that the slice above is shared)
	// a reader that has already been read from (and can seek): only what is left in it is sanitised
	func() {
		defer func() { recover() }()
		pre := "<i>already consumed</i>"
		br := bytes.NewReader([]byte(pre + s))
		io.CopyN(io.Discard, br, int64(len(pre)))
		if got := b.P.SanitizeReader(br); got != nil && got.String() != o1 {
			sig, what = "reader-offset", fmt.Sprintf("SanitizeReader on a bytes.Reader positioned after %d consumed bytes gave %s, Sanitize of the rest gives %s", len(pre), run.Q(got.String()), run.Q(o1))
		}
	}()
	if sig != "" {
		return nil, sig, what
	}
	var o3 *bytes.Buffer
	func() {
		defer func() {
			if r := recover(); r != nil {
				pm = fmt.Sprint(r)
			}
		}()
		o3 = b.P.SanitizeReader(bytes.NewReader(in))
	}()
	if pm != "" {
		return nil, "panic", "SanitizeReader panicked: " + pm
	}
	if o3 == nil || o3.String() != o1 {
		got := "<nil>"
		if o3 != nil {
			got = o3.String()
		}
		return nil, "reader-vs-string", fmt.Sprintf("SanitizeReader=%s differs from Sanitize=%s", run.Q(got), run.Q(o1))
	}
	func() {
		defer func() { recover() }()
		b.P.SanitizeBytes([]byte(other))
		b.P.SanitizeReader(strings.NewReader(other))
		b.P.Sanitize(other)
	}()
	if string(o2) != o1 {
		return nil, "result-overwritten|bytes", fmt.Sprintf("the slice SanitizeBytes returned for %s read %s at first and %s after the policy sanitised another document", run.Q(s), run.Q(o1), run.Q(string(o2)))
	}
	if o3.String() != o1 {
		return nil, "result-overwritten|reader", fmt.Sprintf("the buffer SanitizeReader returned for %s read %s at first and %s after the policy sanitised another document", run.Q(s), run.Q(o1), run.Q(o3.String()))
	}
	return []byte(o1), "", ""
}

func forEachChunking(n int, full bool, fn func(cuts []int)) {
	if n <= 1 {
		fn(nil)
		return
	}
	if full && n <= 8 {
		for mask := 0; mask < 1<<(n-1); mask++ {
			var cuts []int
			for i := 0; i < n-1; i++ {
				if mask&(1<<i) != 0 {
					cuts = append(cuts, i+1)
				}
			}
			fn(cuts)
		}
		return
	}
	fn(nil)
	for i := 1; i < n; i++ {
		fn([]int{i})
		if full && n <= 24 {
			for j := i + 1; j < n; j++ {
				fn([]int{i, j})
			}
		}
	}
	all := make([]int, 0, n-1)
	for i := 1; i < n; i++ {
		all = append(all, i)
	}
	fn(all)
}

func runC15(c *run.Ctx) {
	bs := c15Specs()
	evalInput := func(in []byte, full bool) {
		c.States++
		markup := bytes.ContainsAny(in, "<&")
		for i := range bs {
			b := &bs[i]
			c.Trace(func() string { return b.S.String() + "\n" + run.Q(string(in)) })
			ref, sig, what := judgeC15Base(b, in)
			c.Eval()
			if sig != "" {
				c.Violate(sig, fmt.Sprintf("%s; policy=%s input=%s", what, b.S.Name, run.Q(string(in))), mkCase(b.S, in))
				c.Outcome("violation|" + sig)
				continue
			}
			if blank(string(in)) {
				c.Outcome("blank-input-unchanged")
				continue
			}
			forEachChunking(len(in), full, func(cuts []int) {
				for variant := 0; variant < 3; variant++ {
					for plain := 0; plain < 2; plain++ {
						e := c15Env{Cuts: cuts, Zero: variant == 1, EOFLast: variant == 2, Plain: plain == 1}
						out, err, pm := runEnv(b.P, in, e)
						c.Eval()
						c.Transitions++
						c.Traces++
						if markup && len(cuts) > 0 {
							c.NontrivialN++ // distinct by construction: (policy, input, environment) enumerated once
						}
						if pm != "" || err != nil || !bytes.Equal(out, ref) {
							cs := mkCase(b.S, in)
							ex, _ := json.Marshal(e)
							cs.Extra = ex
							w := fmt.Sprintf("SanitizeReaderToWriter under %s gave %s (err=%v panic=%q), Sanitize gave %s; policy=%s input=%s", string(ex), run.Q(string(out)), err, pm, run.Q(string(ref)), b.S.Name, run.Q(string(in)))
							sg := "chunking"
							if pm != "" {
								sg = "panic"
							} else if err != nil {
								sg = "spurious-error"
							} else if plain == 1 && len(cuts) == 0 && variant == 0 {
								sg = "writer-kind"
							}
							c.Violate(sg, w, cs)
							c.Outcome("violation|" + sg)
							return
						}
					}
				}
			})
			c.Outcome("all-environments-agree")
			if c.WantSample() && len(in) > 8 && markup {
				c.Sample(map[string]interface{}{"policy": b.S.Name, "input": string(in), "chunkings": "all subsets of split points / <=2 split points, x zero-length reads x EOF-with-data x writer kind"})
			}
		}
	}
	// the bundled command-line tools
	ugcBin, emailBin := os.Getenv("VERIF_CMD_UGC"), os.Getenv("VERIF_CMD_EMAIL")
	if ugcBin == "" || emailBin == "" {
		c.Cap("cmd binaries not provided (VERIF_CMD_UGC / VERIF_CMD_EMAIL unset)")
	} else {
		tools := []struct {
			bin string
			b   built
		}{{ugcBin, build(specByName("cmd-ugc"))}, {emailBin, build(specByName("cmd-email"))}}
		kk := 2
		cmdAlpha := append(append([]string{}, fragCore...), "%", "%s %d", "100% sure", `<a href="/a%20b">`, "\n", "\r\n", "  ", "\t", "%!", "\x00", "é",
			`<font color="infrared">`, `<font color="#1234567">`, `<font color="Red">`, `<hr bgcolor="xredx">`, `<button type="submit">`, `<button type="a">`, `<table border=1 cellpadding=x>`,
			`<style type="text/css">`, `<img src="data:image/png;base64,iVBORw0KGgo=">`, `<span class="a b" style="x">`, `<a href="http://e.x/" class="c">`, `<title>`, `<kbd>`)
		// large stdin (a tool must not cap or truncate what arrives): 64 KiB, 1 MiB + 1 and 3 MiB, for each tool
		if c.Shard < 3 {
			n := []int{64 << 10, 1<<20 + 1, 3 << 20}[c.Shard]
			big := []byte("<p>start</p>" + strings.Repeat("<b>text</b> and <i>more</i> words\n", n/33) + "<p>end</p>")
			for _, t := range tools {
				want, pm := San(t.b.P, string(big))
				if pm != "" {
					continue
				}
				cmd := exec.Command(t.bin)
				cmd.Stdin = bytes.NewReader(big)
				var so, se bytes.Buffer
				cmd.Stdout, cmd.Stderr = &so, &se
				err := cmd.Run()
				c.Eval()
				c.Transitions++
				c.NontrivialN++
				if err != nil || so.String() != want {
					cs := mkCase(t.b.S, big)
					cs.Extra = json.RawMessage(`"cmd"`)
					c.Violate("cmd-large|"+t.b.S.Name, fmt.Sprintf("%s printed %d bytes (err=%v stderr=%s) for %d bytes of stdin, the documented policy gives %d bytes", t.b.S.Name, so.Len(), err, run.Q(se.String()), len(big), len(want)), cs)
					c.Outcome("violation|cmd")
				} else {
					c.Outcome("cmd-output-equals-library")
				}
			}
		}
		SeqsS(c, "c15cmd", cmdAlpha, 0, kk, func(in []byte, _ []int) {
			for _, t := range tools {
				want, pm := San(t.b.P, string(in))
				if pm != "" {
					continue
				}
				cmd := exec.Command(t.bin)
				cmd.Stdin = bytes.NewReader(in)
				var so, se bytes.Buffer
				cmd.Stdout, cmd.Stderr = &so, &se
				err := cmd.Run()
				c.Eval()
				c.Transitions++
				c.NontrivialN++
				if err != nil || so.String() != want {
					cs := mkCase(t.b.S, in)
					cs.Extra = json.RawMessage(`"cmd"`)
					c.Violate("cmd|"+t.b.S.Name, fmt.Sprintf("%s printed %s (err=%v stderr=%s), the documented policy gives %s; stdin=%s", t.b.S.Name, run.Q(so.String()), err, run.Q(se.String()), run.Q(want), run.Q(string(in))), cs)
					c.Outcome("violation|cmd")
				} else {
					c.Outcome("cmd-output-equals-library")
				}
			}
		})
	}

	all := fragAll()
	// whitespace-only inputs (ASCII and Unicode white space, CR/LF forms): returned unchanged by Sanitize and SanitizeBytes
	SeqsS(c, "c15blank", []string{" ", "\t", "\n", "\r", "\v", "\f", "\u00a0", "\u0085", "\u2003", "\u3000", "\ufeff"}, 1, 4, func(in []byte, _ []int) {
		for i := range bs[:2] {
			if _, sig, what := judgeC15Base(&bs[i], in); sig != "" {
				c.Violate(sig, fmt.Sprintf("%s; policy=%s input=%s", what, bs[i].S.Name, run.Q(string(in))), mkCase(bs[i].S, in))
				c.Outcome("violation|" + sig)
			} else {
				c.Outcome("blank-or-space-input-consistent")
			}
			c.Eval()
		}
	})
	SeqsS(c, "c15", all, 0, 2, func(in []byte, _ []int) { evalInput(in, true) })
	k3 := fragCore
	if !c.Quick() {
		k3 = all[:60]
	}
	SeqsS(c, "c15", k3, 3, 3, func(in []byte, _ []int) { evalInput(in, !c.Quick() && len(in) <= 16) })

	// long input crossing the tokenizer's 4096-byte buffer
	if c.Shard < 4 {
		unit := []string{`<p id="a">text &amp; more <b>bold</b><script>x</script><!-- c --></p>`, `<a href="http://example.com/?q=1&r=2" title="t">l</a>`,
			`<my-x id=a>y</my-x><img src=x onerror=y>`, "plain text with entities &lt;&gt;&#13; and more "}[c.Shard]
		var sb strings.Builder
		for sb.Len() < 10000 {
			sb.WriteString(unit)
		}
		in := []byte(sb.String()[:10000])
		for i := range bs[:4] {
			b := &bs[i]
			ref, sig, what := judgeC15Base(b, in)
			if sig != "" {
				c.Violate(sig, what+" (10000-byte input)", mkCase(b.S, in))
				continue
			}
			for _, centre := range []int{4096, 8192} {
				for off := centre - 32; off < centre+32; off++ {
					for plain := 0; plain < 2; plain++ {
						e := c15Env{Cuts: []int{off}, Plain: plain == 1}
						out, err, pm := runEnv(b.P, in, e)
						c.Eval()
						c.Transitions++
						c.NontrivialN++
						if pm != "" || err != nil || !bytes.Equal(out, ref) {
							cs := mkCase(b.S, in)
							ex, _ := json.Marshal(e)
							cs.Extra = ex
							c.Violate("chunking-long", fmt.Sprintf("10000-byte input split at %d: output differs from Sanitize (err=%v panic=%q); policy=%s", off, err, pm, b.S.Name), cs)
						}
					}
				}
			}
			c.Outcome("long-input-agrees")
		}
	}
	// long single tokens (text run, attribute value, comment) around buffer sizes an adapter might use, delivered whole
	// and split in the middle, into both kinds of destination
	if c.Shard >= 4 && c.Shard < 12 {
		n := []int{511, 512, 1023, 1024, 1025, 4097, 65537, 200000}[c.Shard-4]
		long := strings.Repeat("abcdefghij", n/10+1)[:n]
		for _, doc := range []string{long, "<b>" + long + "</b>", `<a href="/x" title="` + long + `">t</a>x`, "t<!--" + long + "-->u", long + "&amp;" + long} {
			in := []byte(doc)
			for i := range bs[:4] {
				b := &bs[i]
				ref, sig, what := judgeC15Base(b, in)
				if sig != "" {
					c.Violate(sig, what+fmt.Sprintf(" (%d-byte token)", n), mkCase(b.S, in))
					continue
				}
				for _, cuts := range [][]int{nil, {len(in) / 2}} {
					for plain := 0; plain < 2; plain++ {
						e := c15Env{Cuts: cuts, Plain: plain == 1}
						out, err, pm := runEnv(b.P, in, e)
						c.Eval()
						c.Transitions++
						c.NontrivialN++
						if pm != "" || err != nil || !bytes.Equal(out, ref) {
							cs := mkCase(b.S, in)
							ex, _ := json.Marshal(e)
							cs.Extra = ex
							c.Violate("long-token", fmt.Sprintf("input with a %d-byte token (plain writer=%v, cuts=%v): %d output bytes, Sanitize gives %d (err=%v panic=%q); policy=%s", n, plain == 1, cuts, len(out), len(ref), err, pm, b.S.Name), cs)
						}
					}
				}
				c.Outcome("long-token-agrees")
			}
		}
	}

}

func replayC15(raw json.RawMessage) (bool, string) {
	cs, in := parseCase(raw)
	b := build(cs.Spec)
	if string(cs.Extra) == `"cmd"` {
		bin := os.Getenv("VERIF_CMD_UGC")
		if cs.Spec.Name == "cmd-email" {
			bin = os.Getenv("VERIF_CMD_EMAIL")
		}
		if bin == "" {
			return false, "cmd binary not provided"
		}
		want, _ := San(b.P, string(in))
		cmd := exec.Command(bin)
		cmd.Stdin = bytes.NewReader(in)
		var so bytes.Buffer
		cmd.Stdout = &so
		err := cmd.Run()
		return err != nil || so.String() != want, fmt.Sprintf("cmd printed %s, library gives %s", run.Q(so.String()), run.Q(want))
	}
	ref, sig, what := judgeC15Base(&b, in)
	if sig != "" {
		return true, what
	}
	if len(cs.Extra) == 0 || blank(string(in)) {
		return false, "entry points agree"
	}
	var e c15Env
	json.Unmarshal(cs.Extra, &e)
	out, err, pm := runEnv(b.P, in, e)
	return pm != "" || err != nil || !bytes.Equal(out, ref), fmt.Sprintf("under %s: %s vs %s (err=%v panic=%q)", string(cs.Extra), run.Q(string(out)), run.Q(string(ref)), err, pm)
}

// ---- C16 ---------------------------------------------------------------------------------

type c16Fault struct {
	Mode   string `json:"mode"` // write | read
	Index  int    `json:"index"`
	Kind   int    `json:"kind"`
	String bool   `json:"string_writer"`
	Err    int    `json:"error_kind"` // index into writeErrKinds
}

func c16Specs() []built {
	ss := specsByName("bpbr-comments", "bpbr-spaces", "bpbr", "pattern-bare", "ugc", "everything-named")
	ss = append(ss, spec.Spec{Name: "c16-unsafe", Base: "new", Calls: []C{opt("AllowUnsafe", true), els("script", "style", "b"), {Op: "AllowComments"}, opt("AddSpaceWhenStrippingTag", true)}})
	// script / style removed but their text written back (escaped): a write site of its own in the text-token branch
	ss = append(ss, spec.Spec{Name: "c16-unsafe-text-kept", Base: "new", Calls: []C{opt("AllowUnsafe", true), els("b"), {Op: "AllowElementsContent", Names: []string{"script", "style"}}}})
	return buildAll(ss)
}

func runWriteFault(p *bluemonday.Policy, in []byte, f c16Fault) (fw *faultWriter, err error, pm string) {
	defer func() {
		if r := recover(); r != nil {
			pm = fmt.Sprint(r)
		}
	}()
	if f.String {
		w := &faultStringWriter{faultWriter{failAt: f.Index, kind: f.Kind, failErr: writeErrKinds[f.Err%len(writeErrKinds)]}}
		err = p.SanitizeReaderToWriter(bytes.NewReader(in), w)
		return &w.faultWriter, err, ""
	}
	w := &faultWriter{failAt: f.Index, kind: f.Kind, failErr: writeErrKinds[f.Err%len(writeErrKinds)]}
	err = p.SanitizeReaderToWriter(bytes.NewReader(in), w)
	return w, err, ""
}

func judgeWriteFault(p *bluemonday.Policy, in []byte, f c16Fault, ref []byte) (sig, what string, reached bool) {
	fw, err, pm := runWriteFault(p, in, f)
	if pm != "" {
		return "panic", "panicked: " + pm, true
	}
	if !fw.failed {
		return "", "", false
	}
	if err == nil {
		return "write-error-swallowed", fmt.Sprintf("write #%d failed but SanitizeReaderToWriter returned nil", f.Index), true
	}
	if fw.afterFault > 0 {
		return "write-after-failure", fmt.Sprintf("%d further write(s) after write #%d failed", fw.afterFault, f.Index), true
	}
	if !bytes.HasPrefix(ref, fw.buf.Bytes()) {
		return "not-a-prefix", fmt.Sprintf("bytes accepted before the failure (%s) are not a prefix of the fault-free output (%s)", run.Q(fw.buf.String()), run.Q(string(ref))), true
	}
	return "", "", true
}

type timeoutErr struct{}

func (timeoutErr) Error() string   { return "i/o timeout" }
func (timeoutErr) Timeout() bool   { return true }
func (timeoutErr) Temporary() bool { return true }

// readErrKinds: the non-EOF errors a source may fail with.
var readErrKinds = []error{errBoom, io.ErrUnexpectedEOF, io.ErrClosedPipe, io.ErrNoProgress, timeoutErr{}, fmt.Errorf("wrapped: %w", io.ErrUnexpectedEOF)}

func judgeReadFault(p *bluemonday.Policy, in []byte, j int) (sig, what string) {
	for ki, e := range readErrKinds {
		if s, w := judgeReadFaultKind(p, in, j, e); s != "" {
			return fmt.Sprintf("%s|kind%d", s, ki), w + fmt.Sprintf(" (reader error: %v)", e)
		}
	}
	return "", ""
}

func judgeReadFaultKind(p *bluemonday.Policy, in []byte, j int, readErr error) (sig, what string) {
	var pm string
	var err error
	func() {
		defer func() {
			if r := recover(); r != nil {
				pm = fmt.Sprint(r)
			}
		}()
		var buf bytes.Buffer
		err = p.SanitizeReaderToWriter(&chunkReader{data: in, failAt: j, failErr: readErr}, &buf)
	}()
	if pm != "" {
		return "panic", "panicked: " + pm
	}
	if err == nil {
		return "read-error-swallowed", fmt.Sprintf("reader failed after %d bytes but SanitizeReaderToWriter returned nil", j)
	}
	// the same into a destination that buffers and offers Flush() error (as *bufio.Writer does)
	func() {
		defer func() {
			if r := recover(); r != nil {
				pm = fmt.Sprint(r)
			}
		}()
		var buf bytes.Buffer
		err = p.SanitizeReaderToWriter(&chunkReader{data: in, failAt: j, failErr: readErr}, bufio.NewWriter(&buf))
	}()
	if pm != "" {
		return "panic", "panicked: " + pm
	}
	if err == nil {
		return "read-error-swallowed|flusher", fmt.Sprintf("reader failed after %d bytes but SanitizeReaderToWriter into a *bufio.Writer returned nil", j)
	}
	var ob *bytes.Buffer
	func() {
		defer func() {
			if r := recover(); r != nil {
				pm = fmt.Sprint(r)
			}
		}()
		ob = p.SanitizeReader(&chunkReader{data: in, failAt: j, failErr: readErr})
	}()
	if pm != "" {
		return "panic", "SanitizeReader panicked: " + pm
	}
	if ob == nil || ob.Len() != 0 {
		return "reader-partial-buffer", fmt.Sprintf("reader failed after %d bytes but SanitizeReader returned a non-empty buffer", j)
	}
	// the returned buffer is the caller's: use it, as a caller may (a later failing call must still hand out an empty one)
	ob.WriteString("caller's own data")
	return "", ""
}

func runC16(c *run.Ctx) {
	bs := c16Specs()
	evalInput := func(in []byte) {
		c.States++
		for i := range bs {
			b := &bs[i]
			c.Trace(func() string { return b.S.String() + "\n" + run.Q(string(in)) })
			// fault-free run, recording the write sequence
			fw, err, pm := runWriteFault(b.P, in, c16Fault{Index: -1})
			c.Eval()
			if pm != "" || err != nil {
				c.Violate("fault-free", fmt.Sprintf("fault-free run failed: err=%v panic=%q; policy=%s input=%s", err, pm, b.S.Name, run.Q(string(in))), mkCase(b.S, in))
				continue
			}
			ref := append([]byte{}, fw.buf.Bytes()...)
			m := fw.calls
			for k := 0; k < m; k++ {
				for kind := 0; kind < 3; kind++ {
					for sw := 0; sw < 2; sw++ {
						// the error value rotates through the kinds with the write index and fault kind; index 0 additionally tries all of them
						for ek := 0; ek < len(writeErrKinds); ek++ {
							if k > 0 && ek != (k+kind)%len(writeErrKinds) {
								continue
							}
							f := c16Fault{Mode: "write", Index: k, Kind: kind, String: sw == 1, Err: ek}
							sig, what, reached := judgeWriteFault(b.P, in, f, ref)
							c.Eval()
							c.Transitions++
							c.Traces++
							if reached {
								c.NontrivialN++
							}
							if sig != "" {
								cs := mkCase(b.S, in)
								ex, _ := json.Marshal(f)
								cs.Extra = ex
								c.Violate(sig, fmt.Sprintf("%s; policy=%s input=%s fault=%s", what, b.S.Name, run.Q(string(in)), string(ex)), cs)
								c.Outcome("violation|" + sig)
							} else {
								c.Outcome("write-fault-reported")
							}
						}
					}
				}
			}
			for j := 0; j <= len(in); j++ {
				if len(in) > 600 && !(j < 4 || j > len(in)-4 || (j%4096 < 2 || j%4096 > 4094) || j == len(in)/2) {
					continue // long inputs: reader failures around the ends, the middle and every 4096-byte refill boundary
				}
				sig, what := judgeReadFault(b.P, in, j)
				c.Eval()
				c.Transitions++
				c.Traces++
				c.NontrivialN++
				if sig != "" {
					f := c16Fault{Mode: "read", Index: j}
					cs := mkCase(b.S, in)
					ex, _ := json.Marshal(f)
					cs.Extra = ex
					c.Violate(sig, fmt.Sprintf("%s; policy=%s input=%s", what, b.S.Name, run.Q(string(in))), cs)
					c.Outcome("violation|" + sig)
				} else {
					c.Outcome("read-fault-reported")
				}
			}
			if c.WantSample() && m >= 3 {
				c.Sample(map[string]interface{}{"policy": b.S.Name, "input": string(in), "writes_in_fault_free_run": m, "faults": "each write index x 3 kinds x 2 writer kinds; each read offset"})
			}
		}
	}
	for _, n := range []int{4097, 9000} {
		long := []byte("<b>" + strings.Repeat("t &amp; u ", n/10) + "</b><i>z</i>")
		if c.Own([]byte("c16long"), []byte(fmt.Sprint(n))) {
			evalInput(long)
		}
	}
	all := fragAll()
	SeqsS(c, "c16", all, 0, 2, func(in []byte, _ []int) { evalInput(in) })
	if c.Quick() {
		SeqsS(c, "c16", fragCore, 3, 3, func(in []byte, _ []int) { evalInput(in) })
	} else {
		SeqsS(c, "c16", all[:60], 3, 3, func(in []byte, _ []int) { evalInput(in) })
		SeqsS(c, "c16", fragCore[:20], 4, 4, func(in []byte, _ []int) { evalInput(in) })
	}
}

func replayC16(raw json.RawMessage) (bool, string) {
	cs, in := parseCase(raw)
	b := build(cs.Spec)
	var f c16Fault
	json.Unmarshal(cs.Extra, &f)
	if f.Mode == "read" {
		sig, what := judgeReadFault(b.P, in, f.Index)
		return sig != "", what
	}
	fw, err, pm := runWriteFault(b.P, in, c16Fault{Index: -1})
	if pm != "" || err != nil {
		return true, fmt.Sprintf("fault-free run failed: %v %s", err, pm)
	}
	sig, what, _ := judgeWriteFault(b.P, in, f, fw.buf.Bytes())
	return sig != "", what
}
