package checks

import (
	"encoding/json"
	"fmt"
	"strings"

	"golang.org/x/net/html"

	"verif/harness/internal/obs"
	"verif/harness/internal/run"
	"verif/harness/internal/spec"
)

// C04 — shipped policies are safe: Strict strips all markup, UGC emits inert vocabulary.

func init() {
	register(&run.Check{
		ID:    "C04",
		Level: "model_checking",
		Rule: "bounded-exhaustive: (a) hostile sweep = every element of a closed list of HTML/SVG/MathML names x every attribute of a closed list (all on* handlers, style, srcdoc, formaction, xlink:href, ...) x 7 value classes as single-tag documents, " +
			"plus every sequence of <=3 fragments over an XSS cheat-sheet alphabet (tag/attribute splitting, encoded schemes, raw-text and foreign-content confusion) and the generic F alphabet; each output of StrictPolicy and UGCPolicy re-tokenised and re-parsed in 8 container contexts. " +
			"(b) conforming generator = every element of the documented UGC vocabulary x every <=2 subset of its attributes x witness values, nested to depth 2, which must come back unchanged apart from rel=nofollow. " +
			"non-trivial = output differs from input (hostile) / document contains an attribute (conforming).",
		Assumptions: []string{
			"the UGC vocabulary is the harness's transcription of the documentation (internal/spec/ugc.go), not read from the policy object",
			"container contexts: body div p td li span blockquote section",
		},
		QuickBudget: 50, ThoroughBudget: 800,
		Run:    runC04,
		Replay: replayC04,
	})
}

var forbiddenUGCElements = map[string]bool{"script": true, "style": true, "iframe": true, "object": true, "embed": true, "form": true,
	"input": true, "button": true, "select": true, "textarea": true, "option": true, "optgroup": true, "fieldset": true, "label": true,
	"keygen": true, "output": true, "datalist": true, "base": true, "meta": true, "link": true, "frame": true, "frameset": true,
	"applet": true, "svg": true, "math": true, "template": true, "noscript": true, "title": true}

func badURLValue(val string) bool {
	sch, has := obs.URLScheme(val)
	if !has {
		return false
	}
	return sch != "http" && sch != "https" && sch != "mailto"
}

// judgeStrict: text only.
func judgeStrict(out string) (string, string) {
	for _, t := range obs.Retok(out) {
		if t.Type != html.TextToken {
			return "strict|markup", "StrictPolicy output contains markup token " + t.Type.String()
		}
	}
	for _, ctx := range obs.FlowContexts {
		var sig, what string
		obs.Walk(obs.DOM(out, ctx), func(n *html.Node) {
			if n.Type != html.TextNode && sig == "" {
				sig, what = "strict|dom", "StrictPolicy output parses ("+ctx+") to a non-text node <"+n.Data+">"
			}
		})
		if sig != "" {
			return sig, what
		}
	}
	return "", ""
}

// judgeUGC: DOM vocabulary check, independent blacklist, URL check.
func judgeUGC(v *spec.View, in, out string) (string, string) {
	if s, w := judgeC01(v, out, false); s != "" {
		return "ugc|" + s, w
	}
	if s, w := judgeC02(v, in, out, false); s != "" {
		return "ugc|" + s, w
	}
	if s, w := judgeC03(v, out); s != "" {
		return "ugc|" + s, w
	}
	for _, ctx := range obs.FlowContexts {
		var sig, what string
		obs.Walk(obs.DOM(out, ctx), func(n *html.Node) {
			if sig != "" {
				return
			}
			switch n.Type {
			case html.CommentNode, html.DoctypeNode:
				sig, what = "ugc|dom-comment", "UGC output parses ("+ctx+") to a comment/doctype node"
			case html.ElementNode:
				el := obs.ASCIILower(n.Data)
				if forbiddenUGCElements[el] {
					sig, what = "ugc|forbidden-element|"+el, "UGC output parses ("+ctx+") to forbidden element <"+el+">"
					return
				}
				implied := (el == "tbody" || el == "tr" || el == "colgroup") && obs.HasAncestor(n, "table")
				if !v.ElementAllowed(el) && !implied {
					sig, what = "ugc|dom-element", "UGC output parses ("+ctx+") to <"+el+"> which is outside the documented vocabulary"
					return
				}
				for _, a := range n.Attr {
					k := obs.ASCIILower(a.Key)
					if strings.HasPrefix(k, "on") || k == "style" || a.Namespace != "" {
						sig, what = "ugc|forbidden-attr", "UGC output has attribute "+k+" on <"+el+">"
						return
					}
					if (k == "href" || k == "src" || k == "cite" || k == "action" || k == "formaction" || k == "data" || k == "poster" || k == "background" || k == "srcdoc") && badURLValue(a.Val) {
						sig, what = "ugc|bad-url", fmt.Sprintf("UGC output has %s.%s=%s", el, k, run.Q(a.Val))
						return
					}
					if k == "rel" && (el == "a" || el == "area") {
						continue
					}
					if len(v.AttrRules(el, k)) == 0 {
						sig, what = "ugc|dom-attr", "UGC output has attribute "+k+" on <"+el+"> which is outside the documented vocabulary"
						return
					}
				}
			}
		})
		if sig != "" {
			return sig, what
		}
	}
	return "", ""
}

var hostileElements = strings.Fields(`a abbr acronym address applet area article aside audio b base basefont bdi bdo bgsound big blink blockquote
 body br button canvas caption center cite code col colgroup command content data datalist dd del details dfn dialog dir div dl dt element em embed
 fieldset figcaption figure font footer form frame frameset h1 h2 h3 h4 h5 h6 head header hgroup hr html i iframe image img input ins isindex kbd keygen
 label legend li link listing main map mark marquee menu menuitem meta meter multicol nav nextid nobr noembed noframes noscript object ol optgroup option
 output p param picture plaintext pre progress q rb rp rt rtc ruby s samp script section select shadow slot small source spacer span strike strong style
 sub summary sup table tbody td template textarea tfoot th thead time title tr track tt u ul var video wbr xmp
 svg animate animatemotion animatetransform circle clippath defs desc ellipse feblend fecolormatrix feimage filter foreignobject g line lineargradient
 marker mask metadata path pattern polygon polyline radialgradient rect set stop switch symbol text textpath tspan use view
 math annotation annotation-xml maction menclose merror mfenced mfrac mglyph mi mn mo mover mpadded mphantom mroot mrow ms mspace msqrt mstyle msub
 msubsup msup mtable mtd mtext mtr munder munderover semantics my-x x`)

var hostileAttrs = strings.Fields(`onabort onafterprint onanimationend onanimationstart onbeforeprint onbeforeunload onbegin onblur oncanplay onchange onclick
 oncontextmenu oncopy oncut ondblclick ondrag ondragend ondragover ondrop onend onended onerror onfocus onfocusin onfocusout onhashchange oninput oninvalid
 onkeydown onkeypress onkeyup onload onloadstart onmessage onmousedown onmouseenter onmouseleave onmousemove onmouseout onmouseover onmouseup onpageshow
 onpaste onpointerdown onpointerenter onreset onresize onscroll onsearch onselect onstart onsubmit ontoggle ontransitionend onunload onwheel
 style class id title lang dir hidden tabindex accesskey contenteditable draggable spellcheck slot is itemprop
 href src cite action formaction data poster background srcdoc srcset ping manifest codebase classid archive longdesc usemap profile icon lowsrc dynsrc
 xlink:href xml:base xmlns xmlns:xlink attributename values to from by begin dur fill
 rel target type name value alt width height align valign bgcolor border cellpadding cellspacing colspan rowspan headers scope abbr summary span
 coords shape open datetime min max low high optimum start reversed nowrap http-equiv content charset sandbox allow allowfullscreen crossorigin
 integrity referrerpolicy loading download hreflang media sizes autofocus autoplay controls loop muted preload form formmethod formtarget method
 enctype novalidate pattern placeholder required readonly disabled checked selected multiple maxlength list for face color size encoding definitionurl`)

var hostileValues = []string{
	"x", "javascript:alert(1)", "http://e.x/", "data:text/html,<script>alert(1)</script>", "\" onmouseover=\"alert(1)",
	"&#106;avascript:alert(1)", "expression(alert(1))", "shttp://e.x/", "mailtox:a@e.x", "web+https://e.x/x", "xmailto:a",
}

var xssFrags = []string{
	"<a href=\"data:text/html;base64,PHNjcmlwdD5hbGVydCgxKTwvc2NyaXB0Pg&#10;==\">", "<img src=\"data:image/svg+xml;base64,PHN2Zy8+\n\">",
	"x", " ", "<", ">", "\"", "'", "=", "/", "&lt;", "&#60;", "\x00",
	"<script>", "</script>", "<SCRIPT SRC=//e.x/x.js>", "<img src=x onerror=alert(1)>", "<svg onload=alert(1)>", "<svg>", "</svg>",
	"<math>", "<mtext>", "<mglyph>", "<style>", "</style>", "<title>", "</title>", "<textarea>", "</textarea>", "<noscript>", "</noscript>",
	"<iframe src=javascript:alert(1)>", "<iframe>", "</iframe>", "<object data=x>", "<embed src=x>",
	"<a href=\"javascript:alert(1)\">", "<a href=\"jav&#x09;ascript:alert(1)\">", "<a href=\" javascript:alert(1)\">", "<a href=\"http://e.x/\">", "</a>",
	"<p>", "</p>", "<b>", "<table>", "<td>", "<select>", "<option>", "<form action=x>", "<input type=text>", "<button formaction=x>",
	"<base href=//e.x/>", "<meta http-equiv=refresh content=0>", "<link rel=stylesheet href=x>",
	"<!--", "-->", "--!>", "<![CDATA[", "]]>", "<?", "<!DOCTYPE", "<img src=\"", "<a title=\"", "<div style=\"x:expression(alert(1))\">",
	"<xmp>", "<plaintext>", "<annotation-xml encoding=\"text/html\">", "<foreignObject>", "<desc>", "<img alt=\"--><script>\">",
	"<b/onclick=x>", "<b onclick=x//", "</p x", "<img src=x:x onerror=alert(1)//",
}

func runC04(c *run.Ctx) {
	strict := build(specByName("strict"))
	ugc := build(specByName("ugc"))
	strip := build(spec.Spec{Name: "strict", Base: "striptags"}) // judged exactly like StrictPolicy

	hostile := func(in []byte) {
		s := string(in)
		c.States++
		for bi, b := range []*built{&strict, &ugc, &strip} {
			if bi == 2 && len(s) > 24 {
				continue // the deprecated alias: short inputs only
			}
			c.Trace(func() string { return b.S.Name + "\n" + run.Q(s) })
			out, pm := San(b.P, s)
			c.Eval()
			c.Transitions++
			c.Traces++
			if pm != "" {
				c.Violate("panic", "Sanitize panicked: "+pm, mkCase(b.S, in))
				continue
			}
			if out != s {
				c.Nontrivial([]byte(b.S.Name), in)
			}
			var sig, what string
			if b.S.Name == "strict" {
				sig, what = judgeStrict(out)
			} else {
				sig, what = judgeUGC(b.V, s, out)
			}
			if sig != "" {
				c.Violate(sig, fmt.Sprintf("%s; input=%s output=%s", what, run.Q(s), run.Q(out)), mkCase(b.S, in))
				c.Outcome("violation|" + sig)
				continue
			}
			switch {
			case out == s:
				c.Outcome(b.S.Name + "|hostile|unchanged")
			case !strings.Contains(out, "<"):
				c.Outcome(b.S.Name + "|hostile|text-only")
			default:
				c.Outcome(b.S.Name + "|hostile|inert-markup-kept")
				if c.WantSample() && len(s) > 20 {
					c.Sample(map[string]string{"policy": b.S.Name, "input": s, "output": out})
				}
			}
		}
	}
	// (a1) single-tag sweep
	for _, el := range hostileElements {
		for _, at := range hostileAttrs {
			for _, val := range hostileValues {
				if c.Expired() {
					break
				}
				doc := "<" + el + " " + at + "=\"" + val + "\">t</" + el + ">"
				if c.Own([]byte("sweep"), []byte(doc)) {
					hostile([]byte(doc))
				}
			}
		}
		// two attributes: a benign allowed one first, then the hostile one
		for _, at := range hostileAttrs[:70] {
			doc := "<" + el + " id=a " + at + "=alert(1) title=t>"
			if c.Own([]byte("sweep"), []byte(doc)) {
				hostile([]byte(doc))
			}
		}
	}
	// (a2) XSS alphabet sequences
	k := 3
	SeqsS(c, "xss", xssFrags, 0, k, func(in []byte, _ []int) { hostile(in) })
	if !c.Quick() {
		SeqsS(c, "xss", xssFrags, 4, 4, func(in []byte, idx []int) {
			hostile(in)
		})
	}
	kk := 2
	if !c.Quick() {
		kk = 3
	}
	SeqsS(c, "F", fragAll(), 0, kk, func(in []byte, _ []int) { hostile(in) })

	// (b) conforming documents
	v := ugc.V
	conform := func(doc string) {
		if !c.Own([]byte("conform"), []byte(doc)) {
			return
		}
		c.States++
		c.Trace(func() string { return "ugc conforming\n" + run.Q(doc) })
		out, pm := San(ugc.P, doc)
		c.Eval()
		c.Transitions++
		c.Traces++
		if pm != "" {
			c.Violate("panic", "Sanitize panicked: "+pm, mkCase(ugc.S, []byte(doc)))
			return
		}
		if strings.Contains(doc, "=") {
			c.Nontrivial([]byte("conform"), []byte(doc))
		}
		if sig, what := judgeConform(v, doc, out); sig != "" {
			c.Violate("ugc|"+sig, fmt.Sprintf("%s; document=%s output=%s", what, run.Q(doc), run.Q(out)), mkCaseExtra(ugc.S, []byte(doc), "conform"))
			c.Outcome("violation|conform")
			return
		}
		if out == doc {
			c.Outcome("ugc|conforming|unchanged")
		} else {
			c.Outcome("ugc|conforming|only-rel-added")
		}
	}
	for _, n := range []int{4097, 65536, 70000, 1<<20 + 1} {
		conform("<p>" + strings.Repeat("t", n) + "</p>")
		conform("<pre>" + strings.Repeat("line of text\n", n/13) + "</pre>")
		conform(`<p title="` + strings.Repeat("a", n) + `">t</p>`)
	}
	elsList := v.AllowedElementNames()
	inner := []string{"t", "<b>t</b>", "<a href=\"http://example.com/a?b=c\">t</a>", "<img src=\"/rel/path\">", "<span title=\"x\">t</span>", "t &amp; &lt;t&gt;"}
	for _, el := range elsList {
		if rawish[el] {
			continue
		}
		for _, st := range tagVariants(v, el, 2, true) {
			if c.Expired() {
				break
			}
			if obs.IsVoid(el) {
				conform(st)
				conform("<p>" + st + "t</p>")
				continue
			}
			for _, in := range inner {
				conform(st + in + "</" + el + ">")
			}
			conform("<div>" + st + "t</" + el + "></div>")
		}
	}
	// the shipped constructors hand out fresh policies: after one result was extended, a new one is still as strict
	if c.Shard == 0 {
		for _, ctor := range []string{"strict", "ugc"} {
			first := spec.Build(spec.Spec{Base: ctor})
			for _, call := range []C{els("b", "script", "form"), attrsGlob([]string{"onclick", "style", "href"}, ""), {Op: "AllowComments"}, attrsOn([]string{"href"}, "", "a"),
				{Op: "AllowURLSchemes", Names: []string{"javascript", "data"}}, opt("AllowUnsafe", true), {Op: "AllowElementsContent", Names: []string{"script", "style", "iframe"}}} {
				spec.Apply(first, call)
			}
			first.Sanitize(`<b onclick=x>t</b>`)
			fresh := build(spec.Spec{Name: ctor, Base: ctor})
			for _, doc := range []string{`<b onclick=x>t</b><!-- c --><form>f</form>`, `<a href="javascript:alert(1)" onclick=x style="x">l</a>`, `<script>s</script><iframe>i</iframe>`, `<p style="color:red" onclick=x>p</p>`} {
				out, pm := San(fresh.P, doc)
				c.Eval()
				var sig, what string
				if pm != "" {
					sig, what = "panic", pm
				} else if ctor == "strict" {
					sig, what = judgeStrict(out)
				} else {
					sig, what = judgeUGC(fresh.V, doc, out)
				}
				if sig != "" {
					cs := mkCase(fresh.S, []byte(doc))
					cs.Extra = json.RawMessage(`"after-extension"`)
					c.Violate("shared-instance|"+ctor, fmt.Sprintf("after the result of an earlier %s constructor call was extended, a new one is no longer safe: %s; input=%s output=%s", ctor, what, run.Q(doc), run.Q(out)), cs)
					c.Outcome("violation|shared-instance")
				} else {
					c.Outcome(ctor + "|fresh-instance-unaffected")
				}
			}
		}
	}
	if c.Shard == 0 {
		c.Notes["hostile_elements"] = float64(len(hostileElements))
		c.Notes["hostile_attributes"] = float64(len(hostileAttrs))
		c.Notes["ugc_vocabulary_elements"] = float64(len(elsList))
	}
}

func mkCaseExtra(s spec.Spec, in []byte, extra string) Case {
	cs := mkCase(s, in)
	b, _ := json.Marshal(extra)
	cs.Extra = b
	return cs
}

// judgeConform: a conforming document comes back byte for byte, except for
// attributes the spec instructs the sanitiser to add or rewrite.
func judgeConform(v *spec.View, doc, out string) (string, string) {
	if out == doc {
		return "", ""
	}
	if stripForced(v, out) != stripForced(v, doc) {
		return "conform|altered", "conforming document was altered"
	}
	// only forced attributes differ: the output must still be canonically serialised
	var b strings.Builder
	for _, t := range obs.Retok(out) {
		tok := html.Token{Type: t.Type, Data: t.Data, Attr: t.Attr}
		if t.Name != "" {
			tok.Data = t.Name
		}
		b.WriteString(tok.String())
	}
	if b.String() != out {
		return "conform|serialisation", "output is not canonically serialised"
	}
	return "", ""
}

func replayC04(raw json.RawMessage) (bool, string) {
	cs, in := parseCase(raw)
	b := build(cs.Spec)
	out, pm := San(b.P, string(in))
	if pm != "" {
		return true, "panic: " + pm
	}
	if string(cs.Extra) == `"after-extension"` {
		// fresh process: extend one result of the constructor, then judge a new one
		first := spec.Build(spec.Spec{Base: cs.Spec.Base})
		for _, call := range []C{els("b", "script", "form"), attrsGlob([]string{"onclick", "style", "href"}, ""), {Op: "AllowComments"}, attrsOn([]string{"href"}, "", "a"),
			{Op: "AllowURLSchemes", Names: []string{"javascript", "data"}}, opt("AllowUnsafe", true), {Op: "AllowElementsContent", Names: []string{"script", "style", "iframe"}}} {
			spec.Apply(first, call)
		}
		fresh := build(cs.Spec)
		out2, _ := San(fresh.P, string(in))
		var sig, what string
		if cs.Spec.Base == "strict" {
			sig, what = judgeStrict(out2)
		} else {
			sig, what = judgeUGC(fresh.V, string(in), out2)
		}
		return sig != "", what + " output=" + run.Q(out2)
	}
	if len(cs.Extra) > 0 {
		sig, what := judgeConform(b.V, string(in), out)
		return sig != "", what + " output=" + run.Q(out)
	}
	var sig, what string
	if cs.Spec.Name == "strict" {
		sig, what = judgeStrict(out)
	} else {
		sig, what = judgeUGC(b.V, string(in), out)
	}
	return sig != "", what + " output=" + run.Q(out)
}
