package checks

import (
	"bufio"
	"encoding/json"
	"fmt"
	"os"
	"path/filepath"
	"sort"
	"strings"

	"github.com/microcosm-cc/bluemonday"
	"golang.org/x/net/html"

	"verif/harness/internal/obs"

	"verif/harness/internal/run"
	"verif/harness/internal/spec"
)

// C17 — a policy is its rule set: independent of call order, case and other instances. (E6)

func init() {
	register(&run.Check{
		ID:    "C17",
		Level: "model_checking",
		Rule: "explicit-state search over builder histories: every sequence of <=3 calls over a 79-call alphabet (thorough: also length 4 over its first 44 calls - every rule-building call and seven options both ways; every call that uses an upper-case spelling has its lower-case twin) (element / attribute / style rules in lower- and upper-case spellings and every scope; every boolean option with true and false; skip/keep content on two names in two spellings; scheme registrations incl. custom checks and patterns; two sandbox sets; rewriter) is executed on a fresh real policy; so is every history of <=2 calls that contains one of 24 helper / rarely used calls (AllowStandardURLs, AllowImages, AllowTables, AllowIFrames, builder-level AllowNoAttrs in both chain orders, AllowNoAttrs().Globally(), AllowUnsafe, ...), every history of <=3 calls (thorough 4) over 17 calls on a zero-value Policy{} (order independence there too), and every history of <=2 calls (<=3 over the option calls; thorough one more each) started from a non-initial state in which links, images and iframes survive. Each history is executed by exactly one shard; the parent groups the records of all shards by abstract state. " +
			"Abstract state (reference model) = canonical rule set of the harness's spec view (names lower-cased, duplicates and order removed, last value of each switch, documented couplings). Use does not matter: a policy that sanitised the probes between two builder calls (every pair of calls from the initial state; every call from a links-enabled state and from UGCPolicy) behaves like a fresh policy given the same calls, and a policy that sanitised the probe list eight times over answers each probe as a fresh policy's first call does. Additivity: after one more AllowElements / AllowElementsMatching / AllowAttrs / AllowNoAttrs call every tag and attribute kept before is still kept (histories <=3). Conformance: every history reaching an abstract state must reproduce, byte for byte, the probe-output vector (46 probe documents) of the first history that reached it. " +
			"Independence: (first, in a pristine process) for every base and every call of the alphabet, a fresh policy built after another instance was extended, and the instance built before, reproduce the original vector; then for every pair of histories (A of length <=2, B of length <=1; B of length 2 next to A of length <=1 on the plain base) over a 13-call sub-alphabet and every interleaving of the two, built on two policy objects from each of NewPolicy / UGCPolicy / StrictPolicy, policy A's vector equals A built alone, before and after B is extended. " +
			"states = abstract states reached, transitions = histories executed (each is one path from the initial state), traces validated = histories replayed against the implementation (all of them); non-trivial = histories that reached an already-visited abstract state through a different call sequence.",
		Assumptions: []string{"the reference model is internal/spec (ViewOf + Canon); probe documents are listed in internal/checks/c17.go"},
		QuickBudget: 50, ThoroughBudget: 800,
		Post:   c17Post,
		Run:    runC17,
		Replay: replayC17,
	})
}

func c17Alphabet() []C {
	b := func(op string) []C { return []C{opt(op, true), opt(op, false)} }
	al := []C{
		els("b"), els("B", "I"), {Op: "AllowElementsMatching", Re: reMy},
		attrsOn([]string{"id"}, "", "span"),
		attrsOn([]string{"ID"}, `^[a-z]+$`, "SPAN"),
		attrsGlob([]string{"id"}, ""),
		attrsGlob([]string{"Title"}, "Paragraph"),
		attrsPat([]string{"id"}, "", reMy),
		attrsPat([]string{"ID", "name"}, `^[0-9]+$`, reMyX),
		attrsOn([]string{"href", "SRC", "rel", "target"}, "", "a", "IMG", "iframe"),
		{Op: "AllowNoAttrs", Scope: "on", On: []string{"A"}},
		{Op: "AllowNoAttrs", Scope: "matching", OnRe: reMyX},
		{Op: "AllowStyles", Names: []string{"color"}, Scope: "global"},
		{Op: "AllowStyles", Names: []string{"COLOR"}, Enum: []string{"RED"}, Scope: "on", On: []string{"P", "span"}},
		{Op: "AllowStyles", Names: []string{"width"}, Re: `^[0-9]+px$`, Scope: "matching", OnRe: reMy},
		attrsGlob([]string{"STYLE"}, ""),
		{Op: "SkipElementsContent", Names: []string{"b"}}, {Op: "SkipElementsContent", Names: []string{"B", "span"}},
		{Op: "AllowElementsContent", Names: []string{"iframe"}}, {Op: "AllowElementsContent", Names: []string{"B", "IFRAME"}},
		{Op: "AllowURLSchemes", Names: []string{"http"}}, {Op: "AllowURLSchemes", Names: []string{"HTTP", "mailto"}},
		{Op: "AllowURLSchemeWithCustomPolicy", Names: []string{"http"}, Fn: "host-example.org"},
		{Op: "AllowURLSchemeWithCustomPolicy", Names: []string{"HTTP"}, Fn: "no-query"},
		{Op: "AllowURLSchemesMatching", Re: `^(ftp|tel)$`},
		{Op: "AllowDataAttributes"}, {Op: "AllowComments"},
		{Op: "RequireSandboxOnIFrame", Ints: []int{2}}, {Op: "RequireSandboxOnIFrame", Ints: []int{10, 2}},
		{Op: "RewriteSrc", Fn: "proxy"},
	}
	for _, op := range []string{"AllowRelativeURLs", "RequireParseableURLs", "RequireNoFollowOnLinks", "AddTargetBlankToFullyQualifiedLinks",
		"RequireNoReferrerOnFullyQualifiedLinks", "AddSpaceWhenStrippingTag", "RequireCrossOriginAnonymous"} {
		al = append(al, b(op)...)
	}
	al = append(al, els("p", "span"), els("iframe", "img", "a"), attrsOn([]string{"sandbox", "crossorigin"}, "", "iframe", "img"),
		els("SPAN", "A"), C{Op: "AllowNoAttrs", Scope: "on", On: []string{"SPAN", "img"}},
		// lower-case twins of the calls above that use upper-case spellings (same rule, other spelling)
		attrsOn([]string{"id"}, `^[a-z]+$`, "span"), attrsGlob([]string{"title"}, "Paragraph"), attrsPat([]string{"id", "name"}, `^[0-9]+$`, reMyX),
		attrsOn([]string{"href", "src", "rel", "target"}, "", "a", "img", "iframe"), C{Op: "AllowNoAttrs", Scope: "on", On: []string{"a"}},
		C{Op: "AllowStyles", Names: []string{"color"}, Enum: []string{"red"}, Scope: "on", On: []string{"p", "span"}}, attrsGlob([]string{"style"}, ""),
		C{Op: "SkipElementsContent", Names: []string{"b", "span"}}, C{Op: "AllowElementsContent", Names: []string{"b", "iframe"}},
		C{Op: "AllowURLSchemes", Names: []string{"http", "mailto"}}, C{Op: "AllowURLSchemeWithCustomPolicy", Names: []string{"http"}, Fn: "no-query"},
		els("span", "a"), C{Op: "AllowNoAttrs", Scope: "on", On: []string{"span", "img"}},
		opt("RequireNoFollowOnFullyQualifiedLinks", true), opt("RequireNoFollowOnFullyQualifiedLinks", false), opt("RequireNoReferrerOnLinks", true), opt("RequireNoReferrerOnLinks", false),
		// a second matcher for a property that already has one in the same scope (rules accumulate in every scope)
		C{Op: "AllowStyles", Names: []string{"color"}, Handler: "is-green", Scope: "global"},
		C{Op: "AllowStyles", Names: []string{"color"}, Handler: "is-green", Scope: "on", On: []string{"p"}},
		C{Op: "AllowStyles", Names: []string{"width"}, Enum: []string{"auto"}, Scope: "matching", OnRe: reMy},
		// several properties in one call, no matcher (default handlers), and the same rules as separate calls
		C{Op: "AllowStyles", Names: []string{"color", "text-align"}, Scope: "matching", OnRe: reMyX},
		C{Op: "AllowStyles", Names: []string{"color"}, Scope: "matching", OnRe: reMyX}, C{Op: "AllowStyles", Names: []string{"text-align"}, Scope: "matching", OnRe: reMyX},
		C{Op: "AllowStyles", Names: []string{"text-align", "color"}, Scope: "on", On: []string{"span"}})
	return al
}

var c17Probes = []string{
	`<b>x</b><B>y</B><i>z</i>`, `<p>t</p><span>u</span>`, `<span id="abc">t</span>`, `<span id="123">t</span>`, `<SPAN ID="abc" Title="some title">t</SPAN>`,
	`<my-x id="7" name="8">t</my-x>`, `<my-x>t</my-x>`, `<my-y id="q">t</my-y><my-y>u</my-y>`, `<a>bare</a>`, `<a href="http://example.org/p">l</a>`,
	`<a href="http://e.x/p?q=1">l</a>`, `<a href="HTTP://example.org/?q">l</a>`, `<a href="mailto:a@e.x">m</a>`, `<a href="ftp://e.x/f">f</a>`, `<a href="/rel">r</a>`,
	`<a href="javascript:x">j</a>`, `<a href="http://example.org/" rel="x" target="_self">l</a>`, `<img src="http://example.org/i.png">`, `<img src="/i.png" crossorigin="use-credentials">`,
	`<iframe src="http://example.org/f" sandbox="allow-forms allow-scripts allow-popups">in</iframe>`, `<iframe>inner <b>text</b></iframe>after`,
	`<b>skipped? <i>inner</i></b>tail`, `<span>kept? <b>x</b></span>`, `<p style="color: red">c</p>`, `<p style="COLOR: RED; width: 5px">c</p>`, `<span style="color: blue">c</span>`,
	`<my-x style="width: 10px; color: red" id="1">w</my-x>`, `<b style="color: red">s</b>`, `<b data-k="v" id="a1">d</b>`, `<!-- c --><b>after comment</b>`,
	`<x>unknown</x><y/>tail`, `a<x>b</x>c<z>d`, `<script>s</script><style>t</style>v`, `<title>ti</title><object>o</object>w`, `<b id="Abc" title="T!">mixed</b>`,
	`<img src="x.png" title="t">`, `<a href="//e.x/p" target="_blank">b</a>`, `<a href="#frag">f</a>`, `<span id="">e</span>`, `<i title="<b>">q</i>`,
	`<my-x style="text-align: center; color: red">c</my-x>`, `<span style="text-align: center; color: #fff">c</span>`, `<p style="color: green">g</p>`, `<my-x style="width: auto">a</my-x>`, `<my-y name="5" title="t">n</my-y>`, `<iframe sandbox="">s</iframe>`, `<img crossorigin="x" src="http://e.x/a?b">`, `<p>a</p>  <p>b</p>`, `<B ID=q>upper</B>`, `<a href="tel:123">t</a>`, `&lt;b&gt; &amp; text`,
}

func probeVector(p *bluemonday.Policy, probes []string) (vec []string, pm string) {
	defer func() {
		if r := recover(); r != nil {
			pm = fmt.Sprint(r)
		}
	}()
	vec = make([]string, len(probes))
	for i, d := range probes {
		vec[i] = p.Sanitize(d)
	}
	return vec, ""
}

func firstDiff(a, b []string) int {
	for i := range a {
		if i >= len(b) || a[i] != b[i] {
			return i
		}
	}
	return -1
}

type c17Case struct {
	Mode  string     `json:"mode"` // equivalence | independence
	A     []C        `json:"history_a"`
	B     []C        `json:"history_b"`
	Base  string     `json:"base,omitempty"`
	Inter []int      `json:"interleaving,omitempty"` // 0 = next call of A, 1 = next call of B
	Seq   []baseCall `json:"sequence,omitempty"`     // fresh-after: every (base, call) applied to a scratch instance so far, in order
}

type baseCall struct {
	Base string `json:"base"`
	Call C      `json:"call"`
}

func histStr(h []C) string {
	var parts []string
	for _, c := range h {
		b, _ := json.Marshal(c)
		parts = append(parts, string(b))
	}
	return "[" + strings.Join(parts, ", ") + "]"
}

func runC17(c *run.Ctx) {
	al := c17Alphabet()
	depth := 3
	// ---- phase 0 (first thing in a pristine process): instances do not share state --------------
	// A fresh policy built after another one was built and extended must behave like one built
	// before, and the earlier instance must not move either.
	if c.Shard == 0 {
		bases := []string{"new", "ugc", "strict"}
		a0s := map[string]*bluemonday.Policy{}
		v0s := map[string][]string{}
		for _, base := range bases { // all reference vectors first, while nothing else has been built
			a0s[base] = spec.Build(spec.Spec{Base: base})
			v0s[base], _ = probeVector(a0s[base], c17Probes)
		}
		var seq []baseCall
		for _, base := range bases {
			a0, v0 := a0s[base], v0s[base]
			for _, call := range al {
				pb := spec.Build(spec.Spec{Base: base})
				spec.Apply(pb, call)
				seq = append(seq, baseCall{base, call})
				probeVector(pb, c17Probes)
				a1 := spec.Build(spec.Spec{Base: base})
				v1, pm1 := probeVector(a1, c17Probes)
				v0b, pm2 := probeVector(a0, c17Probes)
				c.Eval()
				c.Transitions++
				c.Traces++
				for which, v := range [][]string{v1, v0b} {
					if i := firstDiff(v0, v); i >= 0 || pm1 != "" || pm2 != "" {
						d := ""
						if i >= 0 {
							d = fmt.Sprintf(" probe %s: before %s, after %s", run.Q(c17Probes[i]), run.Q(v0[i]), run.Q(v[i]))
						}
						what := "a fresh"
						if which == 1 {
							what = "the earlier"
						}
						c.Violate("independence|"+base, fmt.Sprintf("after another %s policy was extended with %s, %s %s policy behaves differently;%s", base, histStr([]C{call}), what, base, d),
							c17Case{Mode: "fresh-after", B: []C{call}, Base: base, Seq: append([]baseCall{}, seq...)})
						c.Outcome("violation|independence")
						break
					}
				}
				c.Outcome("fresh-instance-unaffected")
			}
		}
	}
	// additive calls never take anything away: every tag and attribute kept under a history is still
	// kept after one more AllowElements / AllowElementsMatching / AllowAttrs / AllowNoAttrs call
	// (checked for histories of length <=2 plus the additive call)
	additive := func(call C) bool {
		switch call.Op {
		case "AllowElements", "AllowElementsMatching", "AllowAttrs", "AllowNoAttrs":
			return true
		}
		return false
	}
	mono := func(h []C) {
		last := h[len(h)-1]
		if len(h) > 3 || !additive(last) {
			return
		}
		pv, pm1 := probeVector(spec.Build(spec.Spec{Base: "new", Calls: h[:len(h)-1]}), c17Probes)
		cv, pm2 := probeVector(spec.Build(spec.Spec{Base: "new", Calls: h}), c17Probes)
		c.Eval()
		c.Transitions++
		c.Traces++
		if pm1 != "" || pm2 != "" {
			return
		}
		for i := range pv {
			if lost := keptButLost(pv[i], cv[i]); lost != "" {
				c.Violate("not-additive|"+last.Op, fmt.Sprintf("after one more %s call, %s that was kept before is gone on probe %s: %s gives %s, %s gives %s",
					last.Op, lost, run.Q(c17Probes[i]), histStr(h[:len(h)-1]), run.Q(pv[i]), histStr(h), run.Q(cv[i])), c17Case{Mode: "additive", A: append([]C{}, h...)})
				c.Outcome("violation|not-additive")
				return
			}
		}
		c.Outcome("additive-call-keeps-everything")
	}
	hist := make([]C, 0, depth)
	// Every history is executed by exactly one shard (round-robin on its index). The shard records
	// (hash of the abstract state, hash of the probe-output vector, the history); the parent groups the
	// records of all shards by abstract state and requires one output vector per state (c17Post).
	recf, ferr := os.Create(filepath.Join(c.WorkDir(), fmt.Sprintf("c17-rec-%d.tsv", c.Shard)))
	if ferr != nil {
		c.Cap("cannot write history records: " + ferr.Error())
		return
	}
	recw := bufio.NewWriterSize(recf, 1<<20)
	defer func() { recw.Flush(); recf.Close() }()
	hidx := 0
	var rec func()
	rec = func() {
		if c.Expired() {
			return
		}
		hidx++
		if hidx%c.NShards == c.Shard {
			s := spec.Spec{Name: "h", Base: "new", Calls: hist}
			key := spec.ViewOf(s).Canon()
			if len(hist) > 0 {
				mono(hist)
			}
			c.Trace(func() string { return histStr(hist) })
			p := spec.Build(s)
			vec, pm := probeVector(p, c17Probes)
			c.Eval()
			c.Transitions++
			c.Traces++
			if pm != "" {
				c.Violate("panic", "panic while sanitising probes after history "+histStr(hist)+": "+pm, c17Case{Mode: "equivalence", A: append([]C{}, hist...)})
			} else {
				kh := run.Hash128([]byte(key))
				vh := run.Hash128([]byte(strings.Join(vec, "\x00")))
				hj, _ := json.Marshal(hist)
				fmt.Fprintf(recw, "%016x%016x\t%016x%016x\t%d\t%s\n", kh[0], kh[1], vh[0], vh[1], hidx, hj)
				if c.WantSample() && len(hist) >= 2 {
					c.Sample(map[string]string{"history": histStr(hist), "abstract_state_hash": fmt.Sprintf("%016x", kh[0])})
				}
			}
		}
		if len(hist) == depth {
			return
		}
		for _, call := range al {
			hist = append(hist, call)
			rec()
			hist = hist[:len(hist)-1]
		}
	}
	rec()
	if !c.Quick() {
		// thorough: length 4 over the first 44 calls of the alphabet (every rule-building call and seven options both ways);
		// histories of length <=3 were just covered over the whole alphabet
		core := 0
		for i, call := range al {
			if call.Op == "RewriteSrc" {
				core = i + 1 + 14 // ... plus the seven boolean options that follow it, both ways
				break
			}
		}
		savedAl := al
		al, depth = al[:core], 4
		rec()
		al, depth = savedAl, 3
	}

	// helper and rarely used builder calls: every history of length <=2 over (alphabet + helpers) that contains a helper
	helpers := []C{
		{Op: "AllowStandardURLs"}, {Op: "AllowStandardAttributes"}, {Op: "AllowStyling"}, {Op: "AllowImages"}, {Op: "AllowDataURIImages"}, {Op: "AllowLists"}, {Op: "AllowTables"},
		{Op: "AllowIFrames", Ints: []int{2}}, {Op: "AllowIFrames"},
		{Op: "AllowAttrs", Names: []string{"id"}, Re: `^[a-z]+$`, NoAttrs: true, Scope: "on", On: []string{"A", "span"}},
		// the same rule chained the other way round, and spelled as two separate calls
		{Op: "AllowAttrs", Names: []string{"id"}, Re: `^[a-z]+$`, NoAttrs: true, NoAttrsFirst: true, Scope: "on", On: []string{"a", "span"}},
		attrsOn([]string{"id"}, `^[a-z]+$`, "a", "span"), {Op: "AllowNoAttrs", Scope: "on", On: []string{"a", "span"}},
		{Op: "AllowAttrs", Names: []string{"id", "title"}, NoAttrs: true, NoAttrsFirst: true, Scope: "matching", OnRe: reMy},
		{Op: "AllowAttrs", Names: []string{"ID", "id", "Title"}, NoAttrs: true, Scope: "matching", OnRe: reMy},
		{Op: "AllowStyles", Names: []string{"color", "COLOR", "width"}, Handler: "is-red", Scope: "on", On: []string{"P"}},
		{Op: "AllowStyles", Names: []string{"text-align", "foo-bar"}, Scope: "matching", OnRe: reMy},
		{Op: "AllowNoAttrs", Scope: "global"}, {Op: "AllowAttrs", Names: []string{"lang"}, NoAttrs: true, Scope: "global"},
		{Op: "RequireSandboxOnIFrame"}, opt("AllowUnsafe", true), opt("AllowUnsafe", false), els("script", "STYLE"),
	}
	full := append(append([]C{}, al...), helpers...)
	isHelper := func(i int) bool { return i >= len(al) }
	for i := range full {
		for j := -1; j < len(full); j++ {
			if c.Expired() {
				break
			}
			if !isHelper(i) && (j < 0 || !isHelper(j)) {
				continue
			}
			hist = hist[:0]
			hist = append(hist, full[i])
			if j >= 0 {
				hist = append(hist, full[j])
			}
			saved := depth
			depth = len(hist) // evaluate this history only, do not extend it
			rec()
			depth = saved
		}
	}
	hist = hist[:0]

	// ---- using a policy must not matter to what it is or becomes -----------------------------------------
	// (b) used versus fresh: after a policy has sanitised the probe list eight times over, each probe still gets the
	//     answer a fresh policy gives as its very first call (sanitising leaves nothing behind in the policy);
	// (c) use between calls: apply c1, sanitise all probes, apply c2 - the policy must behave like a fresh one given
	//     c1 and c2 without the use in between. Both for every history of length <=2.
	n2 := 0
	for i := -1; i < len(al); i++ {
		for j := 0; j < len(al); j++ {
			n2++
			if n2%c.NShards != c.Shard || c.Expired() {
				continue
			}
			var h []C
			if i >= 0 {
				h = append(h, al[i])
			}
			h = append(h, al[j])
			s0 := spec.Spec{Name: "h", Base: "new", Calls: h}
			fwd, pm := probeVector(spec.Build(s0), c17Probes)
			if pm != "" {
				continue
			}
			if k, used, fresh := usedVsFresh(s0); k >= 0 {
				c.Violate("used-vs-fresh", fmt.Sprintf("history %s: after the policy has sanitised the probe documents a few times it turns probe %s into %s; a fresh policy's first call gives %s (sanitising changed the policy)",
					histStr(h), run.Q(c17Probes[k]), run.Q(used), run.Q(fresh)), c17Case{Mode: "used-vs-fresh", A: append([]C{}, h...)})
				c.Outcome("violation|used-vs-fresh")
				continue
			}
			c.Eval()
			c.Transitions++
			c.Traces++
			if i >= 0 {
				pu := spec.Build(spec.Spec{Name: "h", Base: "new", Calls: h[:1]})
				probeVector(pu, c17Probes)
				spec.Apply(pu, h[1])
				used, pm2 := probeVector(pu, c17Probes)
				c.Eval()
				c.Transitions++
				c.Traces++
				if pm2 == "" {
					if k := firstDiff(fwd, used); k >= 0 {
						c.Violate("use-between", fmt.Sprintf("history %s: when the policy sanitises documents between the two calls it then turns probe %s into %s; built without that use it gives %s",
							histStr(h), run.Q(c17Probes[k]), run.Q(used[k]), run.Q(fwd[k])), c17Case{Mode: "use-between", A: append([]C{}, h...)})
						c.Outcome("violation|use-between")
						continue
					}
				}
			}
			c.Outcome("use-does-not-matter")
		}
	}

	// (d) order independence on a zero-value Policy{} too (not every builder initialises the tables itself): every
	//     history of length <=3 (thorough 4) over the calls that matter there, grouped by abstract state
	if c.Shard == 0 {
		lit := []C{{Op: "AllowURLSchemesMatching", Re: `^(ftp|tel)$`}, {Op: "RequireSandboxOnIFrame", Ints: []int{2}},
			attrsOn([]string{"href", "src", "sandbox"}, "", "a", "img", "iframe"), {Op: "AllowURLSchemes", Names: []string{"http"}},
			opt("RequireParseableURLs", true), opt("AllowRelativeURLs", true), opt("RequireNoFollowOnLinks", true), opt("AddSpaceWhenStrippingTag", true),
			{Op: "AllowComments"}, {Op: "AllowDataAttributes"}, {Op: "RewriteSrc", Fn: "proxy"}, opt("RequireCrossOriginAnonymous", true),
			{Op: "SkipElementsContent", Names: []string{"b"}}, {Op: "AllowElementsContent", Names: []string{"iframe"}},
			{Op: "AllowStyles", Names: []string{"color"}, Scope: "global"}, els("b", "p"), {Op: "AllowElementsMatching", Re: reMy}}
		ld := 3
		if !c.Quick() {
			ld = 4
		}
		type first struct {
			vec  []string
			hist []C
		}
		seenLit := map[string]first{}
		var lh []C
		var lrec func()
		lrec = func() {
			if c.Expired() {
				return
			}
			if len(lh) > 0 {
				sl := spec.Spec{Name: "h", Base: "literal", Calls: lh}
				vec, pm := probeVector(spec.Build(sl), c17Probes)
				c.Eval()
				c.Transitions++
				c.Traces++
				if pm == "" {
					key := spec.ViewOf(sl).Canon()
					if f, ok := seenLit[key]; !ok {
						seenLit[key] = first{vec, append([]C{}, lh...)}
					} else if k := firstDiff(f.vec, vec); k >= 0 {
						c.Violate("equivalence|literal-base", fmt.Sprintf("on a zero-value Policy{} two rule-equivalent histories behave differently: %s and %s: probe %s: %s vs %s",
							histStr(f.hist), histStr(lh), run.Q(c17Probes[k]), run.Q(f.vec[k]), run.Q(vec[k])), c17Case{Mode: "equivalence", Base: "literal", A: f.hist, B: append([]C{}, lh...)})
						c.Outcome("violation|equivalence")
					} else {
						c.Outcome("literal-base|same-state-same-behaviour")
					}
				}
			}
			if len(lh) == ld {
				return
			}
			for _, call := range lit {
				lh = append(lh, call)
				lrec()
				lh = lh[:len(lh)-1]
			}
		}
		lrec()
	}

	// (c') the same from two non-initial policies (links enabled; UGCPolicy): use it, extend it by one call, and it must
	//      behave like a fresh one extended by that call
	linksPrefix := []C{attrsOn([]string{"href", "src", "rel", "target", "sandbox", "crossorigin"}, "", "a", "img", "iframe"),
		{Op: "AllowURLSchemes", Names: []string{"http", "mailto"}}, opt("AllowRelativeURLs", true)}
	for bi, base := range []spec.Spec{{Name: "links", Base: "new", Calls: linksPrefix}, {Name: "ugc", Base: "ugc"}} {
		for j, call := range al {
			if (j+bi)%c.NShards != c.Shard || c.Expired() {
				continue
			}
			full := spec.Spec{Name: base.Name, Base: base.Base, Calls: append(append([]C{}, base.Calls...), call)}
			fresh, pm := probeVector(spec.Build(full), c17Probes)
			if pm != "" {
				continue
			}
			pu := spec.Build(base)
			probeVector(pu, c17Probes)
			spec.Apply(pu, call)
			used, pm2 := probeVector(pu, c17Probes)
			c.Eval()
			c.Transitions++
			c.Traces++
			if pm2 != "" {
				continue
			}
			if k := firstDiff(fresh, used); k >= 0 {
				c.Violate("use-between|"+base.Name, fmt.Sprintf("a %s policy that sanitised documents and was then extended by %s turns probe %s into %s; extended without that use it gives %s",
					base.Name, histStr([]C{call}), run.Q(c17Probes[k]), run.Q(used[k]), run.Q(fresh[k])), c17Case{Mode: "use-between-base", A: []C{call}, Base: base.Name})
				c.Outcome("violation|use-between")
				continue
			}
			c.Outcome("use-does-not-matter")
		}
	}

	// non-initial states: from a policy in which links, images and iframes already survive (so that the
	// link / sandbox / crossorigin options have something to act on), every history of length <=2 over the
	// alphabet and every history of length <=3 over the boolean options alone
	linksOn := []C{attrsOn([]string{"href", "src", "rel", "target", "sandbox", "crossorigin"}, "", "a", "img", "iframe"),
		{Op: "AllowURLSchemes", Names: []string{"http", "mailto"}}, opt("AllowRelativeURLs", true)}
	var optsOnly []C
	for _, call := range al {
		switch call.Op {
		case "RequireNoFollowOnLinks", "RequireNoFollowOnFullyQualifiedLinks", "RequireNoReferrerOnLinks", "RequireNoReferrerOnFullyQualifiedLinks",
			"AddTargetBlankToFullyQualifiedLinks", "RequireCrossOriginAnonymous", "RequireParseableURLs", "AllowRelativeURLs", "AddSpaceWhenStrippingTag", "RequireSandboxOnIFrame":
			optsOnly = append(optsOnly, call)
		}
	}
	savedAl, savedDepth := al, depth
	for _, lay := range []struct {
		al []C
		k  int
	}{{savedAl, 2}, {optsOnly, 3}} {
		if !c.Quick() {
			lay.k++
		}
		al, depth = lay.al, len(linksOn)+lay.k
		hist = append(hist[:0], linksOn...)
		rec()
	}
	al, depth = savedAl, savedDepth
	hist = hist[:0]

	// ---- independence of instances -------------------------------------------------
	sub := []C{
		els("b"), attrsGlob([]string{"id"}, ""), attrsPat([]string{"id"}, "", reMy), {Op: "AllowNoAttrs", Scope: "on", On: []string{"A", "x"}},
		{Op: "SkipElementsContent", Names: []string{"b", "p"}}, {Op: "AllowElementsContent", Names: []string{"iframe", "title", "script"}},
		{Op: "AllowURLSchemes", Names: []string{"ftp"}}, {Op: "AllowURLSchemeWithCustomPolicy", Names: []string{"http"}, Fn: "never"},
		{Op: "AllowStyles", Names: []string{"color"}, Scope: "global"}, opt("AddSpaceWhenStrippingTag", true), {Op: "AllowComments"},
		opt("RequireNoFollowOnLinks", false), {Op: "AllowStandardAttributes"},
	}
	var hs [][]C
	hs = append(hs, nil)
	for _, a := range sub {
		hs = append(hs, []C{a})
	}
	for _, a := range sub {
		for _, b := range sub {
			hs = append(hs, []C{a, b})
		}
	}
	probes := c17Probes[:24]
	alone := map[string][]string{}
	n := 0
	for _, base := range []string{"new", "ugc", "strict"} {
		for ai, ha := range hs {
			for _, hb := range hs {
				// B histories of length 2 only next to A histories of length <=1 on the plain base
				if len(hb) == 2 && (base != "new" || len(ha) > 1) {
					continue
				}
				n++
				if n%c.NShards != c.Shard || c.Expired() {
					continue
				}
				ak := fmt.Sprint(base, ai)
				va, ok := alone[ak]
				if !ok {
					va, _ = probeVector(spec.Build(spec.Spec{Base: base, Calls: ha}), probes)
					alone[ak] = va
				}
				ha, hb, base := ha, hb, base
				var inter func(ia, ib int, order []int)
				inter = func(ia, ib int, order []int) {
					if ia == len(ha) && ib == len(hb) {
						pa := spec.Build(spec.Spec{Base: base})
						pb := spec.Build(spec.Spec{Base: base})
						xa, xb := 0, 0
						for _, o := range order {
							if o == 0 {
								spec.Apply(pa, ha[xa])
								xa++
							} else {
								spec.Apply(pb, hb[xb])
								xb++
							}
						}
						v1, pm := probeVector(pa, probes)
						c.Eval()
						c.Transitions++
						c.Traces++
						bad := pm != "" || firstDiff(va, v1) >= 0
						if !bad {
							for _, extra := range hb {
								spec.Apply(pb, extra)
							}
							probeVector(pb, probes)
							v2, pm2 := probeVector(pa, probes)
							bad = pm2 != "" || firstDiff(va, v2) >= 0
							v1 = v2
						}
						if bad {
							i := firstDiff(va, v1)
							d := ""
							if i >= 0 {
								d = fmt.Sprintf(" probe %s: alone %s, next to B %s", run.Q(probes[i]), run.Q(va[i]), run.Q(v1[i]))
							}
							c.Violate("independence|"+base, fmt.Sprintf("policy A (%s + %s) behaves differently when policy B (%s + %s) is built alongside it;%s", base, histStr(ha), base, histStr(hb), d),
								c17Case{Mode: "independence", A: ha, B: hb, Base: base, Inter: append([]int{}, order...)})
							c.Outcome("violation|independence")
						} else {
							c.Outcome("instances-independent")
						}
						return
					}
					if ia < len(ha) {
						inter(ia+1, ib, append(order, 0))
					}
					if ib < len(hb) {
						inter(ia, ib+1, append(order, 1))
					}
				}
				inter(0, 0, nil)
			}
		}
	}
	if c.Shard == 0 {
		c.Notes["call_alphabet"] = float64(len(al))
		c.Notes["history_depth"] = float64(depth)
		c.Notes["probe_documents"] = float64(len(c17Probes))
	}
}

// keptButLost reports a tag or attribute present in the re-tokenised `before` output that is
// missing from `after` (multiset comparison of element names and of element.attribute names).
// usedVsFresh: one policy sanitises the whole probe list eight times over (so that anything a call can leave behind
// has been left behind, whichever way map iteration went); then, probe by probe, its answer must be the one a fresh
// policy gives as its very first call. Returns the first deviating probe or -1.
func usedVsFresh(s0 spec.Spec) (k int, used, fresh string) {
	u := spec.Build(s0)
	var last []string
	for rep := 0; rep < 8; rep++ {
		v, pm := probeVector(u, c17Probes)
		if pm != "" {
			return -1, "", ""
		}
		last = v
	}
	for k, d := range c17Probes {
		f, pm := San(spec.Build(s0), d)
		if pm == "" && f != last[k] {
			return k, last[k], f
		}
	}
	return -1, "", ""
}

func keptButLost(before, after string) string {
	count := func(s string) map[string]int {
		m := map[string]int{}
		for _, t := range obs.Retok(s) {
			switch t.Type {
			case html.StartTagToken, html.SelfClosingTagToken, html.EndTagToken:
				m["<"+t.Name+">"]++
				for _, a := range t.Attr {
					m[t.Name+"."+a.Key]++
				}
			}
		}
		return m
	}
	b, a := count(before), count(after)
	for k, n := range b {
		if a[k] < n {
			return k
		}
	}
	return ""
}

func lastOp(h []C) string {
	if len(h) == 0 {
		return "empty"
	}
	return h[len(h)-1].Op
}

func replayC17(raw json.RawMessage) (bool, string) {
	var x c17Case
	json.Unmarshal(raw, &x)
	switch x.Mode {
	case "equivalence":
		eb := "new"
		if x.Base != "" {
			eb = x.Base
		}
		va, pm := probeVector(spec.Build(spec.Spec{Base: eb, Calls: x.A}), c17Probes)
		if pm != "" {
			return true, "panic: " + pm
		}
		if x.B == nil {
			return false, "no second history"
		}
		if spec.ViewOf(spec.Spec{Base: eb, Calls: x.A}).Canon() != spec.ViewOf(spec.Spec{Base: eb, Calls: x.B}).Canon() {
			return false, "histories are not rule-equivalent under the current model"
		}
		vb, pm := probeVector(spec.Build(spec.Spec{Base: eb, Calls: x.B}), c17Probes)
		if pm != "" {
			return true, "panic: " + pm
		}
		i := firstDiff(va, vb)
		if i < 0 {
			return false, "same behaviour"
		}
		return true, fmt.Sprintf("probe %s: %s vs %s", run.Q(c17Probes[i]), run.Q(va[i]), run.Q(vb[i]))
	case "used-vs-fresh":
		k, used, fresh := usedVsFresh(spec.Spec{Base: "new", Calls: x.A})
		if k < 0 {
			return false, "a used policy behaves like a fresh one"
		}
		return true, fmt.Sprintf("probe %s: %s on the used policy, %s as a fresh policy's first call", run.Q(c17Probes[k]), run.Q(used), run.Q(fresh))
	case "use-between":
		if len(x.A) < 2 {
			return false, "needs two calls"
		}
		fwd, _ := probeVector(spec.Build(spec.Spec{Base: "new", Calls: x.A}), c17Probes)
		pu := spec.Build(spec.Spec{Base: "new", Calls: x.A[:1]})
		probeVector(pu, c17Probes)
		spec.Apply(pu, x.A[1])
		used, _ := probeVector(pu, c17Probes)
		k := firstDiff(fwd, used)
		if k < 0 {
			return false, "use between the calls does not matter"
		}
		return true, fmt.Sprintf("probe %s: %s after use between the calls, %s without", run.Q(c17Probes[k]), run.Q(used[k]), run.Q(fwd[k]))
	case "use-between-base":
		if len(x.A) != 1 {
			return false, "needs one call"
		}
		base := spec.Spec{Base: "ugc"}
		if x.Base == "links" {
			base = spec.Spec{Base: "new", Calls: []C{attrsOn([]string{"href", "src", "rel", "target", "sandbox", "crossorigin"}, "", "a", "img", "iframe"),
				{Op: "AllowURLSchemes", Names: []string{"http", "mailto"}}, opt("AllowRelativeURLs", true)}}
		}
		full := spec.Spec{Base: base.Base, Calls: append(append([]C{}, base.Calls...), x.A[0])}
		fresh, _ := probeVector(spec.Build(full), c17Probes)
		pu := spec.Build(base)
		probeVector(pu, c17Probes)
		spec.Apply(pu, x.A[0])
		used, _ := probeVector(pu, c17Probes)
		k := firstDiff(fresh, used)
		if k < 0 {
			return false, "use before the call does not matter"
		}
		return true, fmt.Sprintf("probe %s: %s after use before the call, %s without", run.Q(c17Probes[k]), run.Q(used[k]), run.Q(fresh[k]))
	case "additive":
		if len(x.A) == 0 {
			return false, "empty history"
		}
		pv, _ := probeVector(spec.Build(spec.Spec{Base: "new", Calls: x.A[:len(x.A)-1]}), c17Probes)
		cv, _ := probeVector(spec.Build(spec.Spec{Base: "new", Calls: x.A}), c17Probes)
		for i := range pv {
			if lost := keptButLost(pv[i], cv[i]); lost != "" {
				return true, fmt.Sprintf("%s lost on probe %s: %s -> %s", lost, run.Q(c17Probes[i]), run.Q(pv[i]), run.Q(cv[i]))
			}
		}
		return false, "additive call keeps everything"
	case "fresh-after":
		// runs in a pristine process (bin/check replay and the confirmation step start one per case):
		// reference vectors first, then the recorded sequence of scratch instances, then compare
		bases := []string{"new", "ugc", "strict"}
		a0s := map[string]*bluemonday.Policy{}
		v0s := map[string][]string{}
		for _, b := range bases {
			a0s[b] = spec.Build(spec.Spec{Base: b})
			v0s[b], _ = probeVector(a0s[b], c17Probes)
		}
		for _, bc := range x.Seq {
			pb := spec.Build(spec.Spec{Base: bc.Base})
			spec.Apply(pb, bc.Call)
			probeVector(pb, c17Probes)
		}
		v1, _ := probeVector(spec.Build(spec.Spec{Base: x.Base}), c17Probes)
		v0b, _ := probeVector(a0s[x.Base], c17Probes)
		return firstDiff(v0s[x.Base], v1) >= 0 || firstDiff(v0s[x.Base], v0b) >= 0, "a policy built before / after other instances were extended behaves differently"
	case "independence":
		probes := c17Probes[:24]
		va, _ := probeVector(spec.Build(spec.Spec{Base: x.Base, Calls: x.A}), probes)
		pa := spec.Build(spec.Spec{Base: x.Base})
		pb := spec.Build(spec.Spec{Base: x.Base})
		xa, xb := 0, 0
		for _, o := range x.Inter {
			if o == 0 && xa < len(x.A) {
				spec.Apply(pa, x.A[xa])
				xa++
			} else if xb < len(x.B) {
				spec.Apply(pb, x.B[xb])
				xb++
			}
		}
		v1, pm := probeVector(pa, probes)
		if pm != "" || firstDiff(va, v1) >= 0 {
			return true, "policy A differs when B is built alongside"
		}
		for _, extra := range x.B {
			spec.Apply(pb, extra)
		}
		probeVector(pb, probes)
		v2, _ := probeVector(pa, probes)
		return firstDiff(va, v2) >= 0, "policy A differs after B was extended"
	}
	return false, "unknown mode"
}

// c17Post groups the history records of all shards by abstract state: all histories of one state must
// have produced the same probe-output vector.
func c17Post(workDir string, shards int) run.PostResult {
	type recd struct {
		vec  string
		idx  int
		hist string
	}
	groups := map[string][]recd{}
	pr := run.PostResult{Outcomes: map[string]int64{}}
	for i := 0; i < shards; i++ {
		f, err := os.Open(filepath.Join(workDir, fmt.Sprintf("c17-rec-%d.tsv", i)))
		if err != nil {
			pr.Incomplete = "history records of a shard are missing"
			continue
		}
		sc := bufio.NewScanner(f)
		sc.Buffer(make([]byte, 1<<20), 1<<20)
		for sc.Scan() {
			parts := strings.SplitN(sc.Text(), "\t", 4)
			if len(parts) != 4 {
				continue
			}
			var idx int
			fmt.Sscan(parts[2], &idx)
			groups[parts[0]] = append(groups[parts[0]], recd{parts[1], idx, parts[3]})
		}
		f.Close()
		os.Remove(filepath.Join(workDir, fmt.Sprintf("c17-rec-%d.tsv", i)))
	}
	pr.States = int64(len(groups))
	keys := make([]string, 0, len(groups))
	for k := range groups {
		keys = append(keys, k)
	}
	sort.Strings(keys)
	for _, k := range keys {
		g := groups[k]
		sort.Slice(g, func(a, b int) bool { return g[a].idx < g[b].idx })
		pr.Nontrivial += int64(len(g) - 1)
		reported := 0
		for _, r := range g[1:] {
			if r.vec == g[0].vec {
				pr.Outcomes["same-state-same-behaviour"]++
				continue
			}
			pr.Outcomes["violation|equivalence"]++
			if reported >= 2 {
				continue
			}
			reported++
			var a, b []C
			json.Unmarshal([]byte(g[0].hist), &a)
			json.Unmarshal([]byte(r.hist), &b)
			cs, _ := json.Marshal(c17Case{Mode: "equivalence", A: a, B: b})
			_, what := replayC17(cs)
			pr.Violations = append(pr.Violations, run.Violation{Property: "C17", Signature: "equivalence|" + lastOp(b),
				What: fmt.Sprintf("two rule-equivalent histories behave differently: %s and %s: %s", histStr(a), histStr(b), what), Case: cs})
		}
	}
	return pr
}
