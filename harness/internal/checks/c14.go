package checks

import (
	"bytes"
	"encoding/json"
	"fmt"
	"strings"

	"github.com/microcosm-cc/bluemonday"
	"github.com/microcosm-cc/bluemonday/css"

	"verif/harness/internal/hooks"
	"verif/harness/internal/run"
	"verif/harness/internal/spec"
)

// C14 — sanitising always returns promptly and never panics. (E5 + E1)

// stepK is the constant of the step budget K*(len+16)^3. It was fixed once from
// the repaired tree: the largest observed steps/(len+16)^3 over every family
// and size below is 0.315 (tiny inputs dominate), times a margin of 50.
const stepK = 16.0

func init() {
	register(&run.Check{
		ID:    "C14",
		Level: "model_checking",
		Rule: "(a) no panic: every byte string <=4 (thorough 5) over B, every fragment sequence <=2 (thorough 3) over F, every sequence of 3-4 tokens over a 23-token token-loop alphabet (one token of every class the loop's bookkeeping distinguishes), and every sequence <=2 over the attribute / URL (<=3) / style-declaration alphabets of the other checks in their contexts, through all four entry points (the streaming one into a bytes.Buffer and into a destination without WriteString), against four policies: an 'everything on' policy (every default CSS handler globally, a rewriter that dereferences its argument, data URIs, data attributes, element patterns, every link / crossorigin / sandbox option), the same with URL parsing switched off again, a rewriter-only policy, and UGC; data: URIs of <=3 fragments in img.src as well; for every default CSS handler every prefix / suffix of every accepted token and every prefix of every function-notation token after an accepted beginning (no panic, within the step budget); " +
			"(b) promptness by step-bounded execution: the overlay counts one step per statement of package bluemonday and per function entry / loop iteration of package css; for every default CSS handler x up to 12 tokens of its own vocabulary x separator {' ', ',', '/', ' / '} x terminator {none, a rejected token} x size n in {1,2,4,8,16,24,32,48}: handler(n-fold value) must finish within K*(len+16)^3 steps; " +
			"likewise 22 size-parameterised HTML families through Sanitize (nested dropped / skipped / attribute-less elements, n attributes, n rel tokens, n style declarations, n CSS escapes, n-token shorthand values for 14 shorthand properties, n data- prefixes, n bare < and &, ...) for n up to 256. Exceeding the budget aborts the call (sentinel panic) and is the violation; sizes are visited in increasing order. No wall-clock oracle. " +
			"non-trivial = distinct (family, size) executions with n >= 4." +
			" Every style value of <=4 (thorough 5) bytes over the 16 bytes the style scanner's branches distinguish, as value and as property name.",
		Assumptions: []string{
			"work inside regexp, douceur and x/net/html (linear by construction) is not counted",
			"polynomial growth is established for the listed sizes under a cubic budget, not proved asymptotically",
			"K = 16 (50 x the largest ratio, 0.315, observed on the repaired tree)",
		},
		QuickBudget: 50, ThoroughBudget: 800,
		Run:    runC14,
		Replay: replayC14,
	})
}

type stepAbort struct{}

var (
	stepCount  int64
	stepBudget int64
)

func stepHook(id int) {
	stepCount++
	if stepCount > stepBudget {
		panic(stepAbort{})
	}
}

// underBudget runs f with the step counter armed. aborted reports a budget
// overrun; pm a genuine panic.
func underBudget(budget int64, f func()) (steps int64, aborted bool, pm string) {
	stepCount, stepBudget = 0, budget
	hooks.SetPoint(stepHook)
	defer func() {
		hooks.SetPoint(nil)
		steps = stepCount
		if r := recover(); r != nil {
			if _, ok := r.(stepAbort); ok {
				aborted = true
				return
			}
			pm = fmt.Sprint(r)
		}
	}()
	f()
	return
}

func budgetFor(n int) int64 {
	x := float64(n + 16)
	return int64(stepK*x*x*x) + 64
}

func everythingOnSpec() spec.Spec {
	return spec.Spec{Name: "everything-on", Base: "ugc", Calls: []C{
		{Op: "AllowStyles", Names: cssProps(), Scope: "global"},
		attrsGlob([]string{"style", "class", "rel", "target"}, ""),
		{Op: "AllowElementsMatching", Re: reMy}, attrsPat([]string{"id", "src", "href"}, "", reMy),
		{Op: "AllowNoAttrs", Scope: "matching", OnRe: reMyX},
		{Op: "AllowStyles", Names: []string{"width"}, Re: `^[0-9]+px$`, Scope: "matching", OnRe: reMy},
		attrsOn([]string{"src", "sandbox", "crossorigin", "name"}, "", "iframe", "audio", "video", "source", "embed", "input", "track"),
		attrsOn([]string{"href"}, "", "link", "base"),
		{Op: "AllowDataAttributes"}, {Op: "AllowDataURIImages"}, {Op: "AllowComments"},
		{Op: "RewriteSrc", Fn: "proxy"},
		opt("RequireNoFollowOnLinks", true), opt("RequireNoReferrerOnFullyQualifiedLinks", true), opt("AddTargetBlankToFullyQualifiedLinks", true),
		opt("RequireCrossOriginAnonymous", true), {Op: "RequireSandboxOnIFrame", Ints: []int{2, 10}},
		opt("AddSpaceWhenStrippingTag", true),
	}}
}

type c14Case struct {
	Mode  string    `json:"mode"` // entry | handler | html
	Spec  spec.Spec `json:"spec,omitempty"`
	Prop  string    `json:"property,omitempty"`
	Input string    `json:"input_b64"`
	Human string    `json:"input_prefix"`
	Len   int       `json:"len"`
}

func mkC14(mode string, s spec.Spec, prop string, in string) c14Case {
	h := in
	if len(h) > 160 {
		h = h[:160] + "..."
	}
	return c14Case{Mode: mode, Spec: s, Prop: prop, Input: run.B64([]byte(in)), Human: run.Q(h), Len: len(in)}
}

// allEntryPoints calls the four entry points; returns a panic message if any panics.
func allEntryPoints(p *bluemonday.Policy, in []byte) (pm string) {
	defer func() {
		if r := recover(); r != nil {
			if _, isAbort := r.(stepAbort); isAbort {
				panic(r) // the step budget, not a panic of the library: let underBudget see it
			}
			pm = fmt.Sprint(r)
		}
	}()
	p.Sanitize(string(in))
	p.SanitizeBytes(append([]byte{}, in...))
	p.SanitizeReader(bytes.NewReader(in))
	var buf bytes.Buffer
	p.SanitizeReaderToWriter(bytes.NewReader(in), &buf)
	// and into a destination that has no WriteString method (the library then wraps it)
	p.SanitizeReaderToWriter(bytes.NewReader(in), writeOnly{&buf})
	return ""
}

// writeOnly hides every method of its destination except Write.
type writeOnly struct{ w *bytes.Buffer }

func (w writeOnly) Write(p []byte) (int, error) { return w.w.Write(p) }

type htmlFamily struct {
	name string
	gen  func(n int) string
}

func rep(s string, n int) string { return strings.Repeat(s, n) }

func htmlFamilies() []htmlFamily {
	fs := []htmlFamily{
		{"nested-dropped", func(n int) string { return rep("<x>", n) + "t" + rep("</x>", n) }},
		{"nested-skipped", func(n int) string { return rep("<object>", n) + "t" + rep("</object>", n) }},
		{"nested-attrless", func(n int) string { return rep("<a>", n) + "t" + rep("</a>", n) }},
		{"nested-kept", func(n int) string { return rep("<b><i>", n) + "t" + rep("</i></b>", n) }},
		{"unclosed-attrless", func(n int) string { return rep("<a><img>", n) + "t" }},
		{"stray-end-tags", func(n int) string { return rep("</a></object></b>", n) }},
		{"many-attributes", func(n int) string { return "<a " + rep(`href="http://e.x/" title=t id=a `, n) + ">" }},
		{"many-rel", func(n int) string { return `<a href="http://e.x/" ` + rep(`rel="nofollow x" `, n) + `target=_blank>` }},
		{"long-rel", func(n int) string { return `<a href="http://e.x/" rel="` + rep("tok ", n) + `">` }},
		{"many-declarations", func(n int) string { return `<p style="` + rep("color: red; width: 1px; ", n) + `">` }},
		{"many-css-escapes", func(n int) string { return `<p style="color: ` + rep(`\72 `, n) + `">` }},
		{"many-backslashes", func(n int) string { return `<p style="color: ` + rep(`\`, n) + `">` }},
		{"data-prefixes", func(n int) string { return "<b " + rep("data-", n) + "x=1>" }},
		{"many-data-attrs", func(n int) string { return "<b " + rep("data-a=1 ", n) + ">" }},
		{"bare-lt", func(n int) string { return rep("<", n) }},
		{"bare-amp", func(n int) string { return rep("&", n) + rep("&#", n) }},
		{"comment-openers", func(n int) string { return rep("<!--", n) + rep("-->", n) }},
		{"long-url", func(n int) string { return `<a href="http://e.x/?` + rep("a=b&", n) + `">` }},
		{"sandbox-tokens", func(n int) string { return `<iframe src=x sandbox="` + rep("allow-forms allow-scripts x ", n) + `">` }},
		{"pattern-elements", func(n int) string { return rep("<my-x id=a><my-y>", n) + rep("</my-y></my-x>", n) }},
		{"many-srcs", func(n int) string { return "<img " + rep(`src="http://e.x/i" `, n) + ">" }},
	}
	for _, sh := range []struct{ prop, tok, term string }{
		{"border", "1px", " x"}, {"font", "normal", " @"}, {"columns", "1", " x"}, {"grid", "auto", " @"}, {"text-decoration", "underline", " x"},
		{"animation", "ease", " @"}, {"transition", "ease", " @"}, {"background", "red", " @"}, {"border-image", "1", " @"}, {"list-style", "disc", " @"},
		{"flex", "1", " x"}, {"outline", "x", ""}, {"margin", "1px", " x"}, {"box-shadow", "1px", " x"},
	} {
		sh := sh
		fs = append(fs, htmlFamily{"shorthand-" + sh.prop, func(n int) string {
			return `<p style="` + sh.prop + `: ` + strings.TrimSpace(rep(sh.tok+" ", n)) + sh.term + `">t</p>`
		}})
	}
	return fs
}

func runC14(c *run.Ctx) {
	on := build(everythingOnSpec())
	ugc := build(specByName("ugc"))
	// the same with URL parsing switched off again at the end (rewriter, link options and forced attributes then see raw
	// values), and a minimal policy with a rewriter that never had URL parsing on
	offSpec := everythingOnSpec()
	offSpec.Name = "everything-on-urls-unparsed"
	offSpec.Calls = append(append([]C{}, offSpec.Calls...), opt("RequireParseableURLs", false))
	off := build(offSpec)
	rw := build(spec.Spec{Name: "rewriter-only", Base: "new", Calls: []C{attrsOn([]string{"src", "href", "cite"}, "", "img", "a", "q", "iframe"), {Op: "RewriteSrc", Fn: "proxy"}}})
	// nil callbacks, which the builder methods accept: a custom URL check and a src rewriter that are nil
	nilcb := build(spec.Spec{Name: "nil-callbacks", Base: "new", Calls: []C{attrsOn([]string{"src", "href", "cite"}, "", "img", "a", "q"),
		{Op: "AllowURLSchemes", Names: []string{"https"}}, {Op: "AllowURLSchemeWithCustomPolicy", Names: []string{"tel"}, Fn: "nil"},
		{Op: "AllowURLSchemeWithCustomPolicy", Names: []string{"http"}, Fn: "nil"}, {Op: "AllowURLSchemeWithCustomPolicy", Names: []string{"http"}, Fn: "host-example.org"}}})
	// ---- (a) no panic, all entry points --------------------------------------------
	entry := func(in []byte) {
		c.States++
		for _, b := range []*built{&on, &ugc, &off, &rw, &nilcb} {
			c.Trace(func() string { return b.S.Name + "\n" + run.Q(string(in)) })
			var pm string
			if hooks.Available {
				// under the (generous) step budget as well, so that a loop that never ends is a verdict and not a hang
				_, ab, pm2 := underBudget(8*budgetFor(len(in))+100000, func() { pm = allEntryPoints(b.P, in) })
				if pm2 != "" {
					pm = pm2
				}
				if ab {
					c.Violate("slow|entry", fmt.Sprintf("the entry points did not finish within %d steps on a %d-byte input; policy=%s input=%s", 8*budgetFor(len(in))+100000, len(in), b.S.Name, run.Q(string(in))), mkC14("html", b.S, "", string(in)))
					c.Outcome("violation|slow-entry")
					continue
				}
			} else {
				pm = allEntryPoints(b.P, in)
			}
			c.Eval()
			c.Transitions++
			c.Traces++
			if pm != "" {
				c.Violate("panic|entry", fmt.Sprintf("an entry point panicked: %s; policy=%s input=%s", pm, b.S.Name, run.Q(string(in))), mkC14("entry", b.S, "", string(in)))
				c.Outcome("violation|panic")
			} else {
				c.Outcome("returned-normally")
			}
		}
	}
	nb, kf := 4, 2
	if !c.Quick() {
		nb, kf = 5, 3
	}
	BytesS(c, "c14b", byteAlpha, 0, nb, entry)
	extra := []string{`<img src=" http://e.x/a.png&#10;">`, `<img src="http://e.x/a b">`, `<a href=" http://e.x/ ">`, `<p style="color: \">`, `<p style="grid: auto auto auto @">`,
		`<iframe src="%zz">`, `<img src="data:image/png;base64,iVBORw0KGgo=">`, `<img src="data:image/png;base64,iVBOR w0K&#10;Ggo=">`, `<source src="//e.x/\x00">`, `<my-x src="http://[::1">`}
	extra = append(extra, `<a href="http://e.x/" rel="nofollowed noopenerx" target=_blank>`, `<a href=x rel="noreferrer-when-downgrade nofollow-ish">`, `<area href=x rel="no">`,
		`<p style=" ">`, `<p style="">`, `<p style="  ;">`, `<span style="color: red\ ;">x</span>`, "<p style=\"color: red\\\t;\">", `<p style="color: \">`, `<p style="}">`,
		`<p style="transform: q q q q">`, `<iframe sandbox="allow-formsx allow">`, `<b data-=1 data-x>`, `<img crossorigin>`)
	SeqsS(c, "c14f", append(fragAll(), extra...), 0, kf, func(in []byte, _ []int) { entry(in) })
	// token-loop alphabet: one token of every class the loop's bookkeeping distinguishes (kept, dropped for lack of
	// attributes, disallowed, skip-content, void, self-closing, pattern-matched, end tags of each), every sequence <=4
	loopToks := []string{"t", "<b>", "</b>", "<a>", "</a>", `<a href="http://e.x/">`, "<span>", "</span>", "<x>", "</x>", "<object>", "</object>", "<title>", "</title>",
		"<br>", "<img>", "<b/>", "<a/>", "<my-x id=a>", "</my-x>", "<my-y>", "</my-y>", "<!-- c -->"}
	SeqsS(c, "c14loop", loopToks, 3, 4, func(in []byte, _ []int) { entry(in) })
	// the special alphabets of the other checks, in their contexts: attribute lists on link / media / generic elements, URL strings, style declarations
	la := append(append(append([]string{}, linkAttrAlphabet()...), c02Attrs...), c12MediaAttrs...)
	la = append(la, c12FrameAttrs...)
	for _, el := range []string{"a", "img", "iframe", "my-x", "span"} {
		SeqsS(c, "c14attrs"+el, la, 0, 2, func(attrs []byte, _ []int) { entry([]byte("<" + el + string(attrs) + ">t</" + el + ">")) })
	}
	SeqsS(c, "c14url", urlFrags, 0, 3, func(u []byte, _ []int) {
		q := htmlAttrQuote(string(u))
		entry([]byte("<a href=" + q + "><img src=" + q + "><q cite=" + q + ">"))
	})
	for _, pre := range urlPrefixes {
		SeqsS(c, "c14urltail"+pre, urlTailFrags, 1, 3, func(u []byte, _ []int) {
			q := htmlAttrQuote(pre + string(u))
			entry([]byte("<a href=" + q + "><img src=" + q + ">"))
		})
	}
	SeqsS(c, "c14data", dataURIFrags, 1, 3, func(u []byte, _ []int) {
		entry([]byte("<img src=" + htmlAttrQuote(string(u)) + ">"))
		entry([]byte("<img src=" + htmlAttrQuote("data:"+string(u)) + ">"))
	})
	dtexts := make([]string, len(c10Decls))
	for i, d := range c10Decls {
		dtexts[i] = d.text + "; "
	}
	SeqsS(c, "c14style", dtexts, 0, 2, func(st []byte, _ []int) {
		entry([]byte("<p style=" + htmlAttrQuote(strings.ReplaceAll(string(st), "&", "&amp;")) + ">t</p>"))
	})

	// style values byte by byte: every string over the bytes the style scanner's branches distinguish (brackets, the
	// "<!--" / "#" / "@" look-behinds, dashes, quote, escape, comment and declaration delimiters), so that every
	// offset-0 / offset-1 position of each look-behind is reached
	nsv := 4
	if !c.Quick() {
		nsv = 5
	}
	BytesS(c, "c14stylebytes", []byte("-()[]<!#@a\\\";/* "), 1, nsv, func(v []byte) {
		entry([]byte("<p style=" + htmlAttrQuote("color: "+strings.ReplaceAll(string(v), "&", "&amp;")) + ">t</p>"))
		entry([]byte("<p style=" + htmlAttrQuote(strings.ReplaceAll(string(v), "&", "&amp;")+": red") + ">t</p>"))
	})

	// ---- (b) promptness ----------------------------------------------------------------
	if !hooks.Available {
		c.Cap("binary built without the instrumentation overlay: step-bounded execution skipped")
		return
	}
	sizes := []int{1, 2, 4, 8, 16, 24, 32, 48}
	if !c.Quick() {
		sizes = append(sizes, 64, 96)
	}
	pool := cssPool()
	maxRatio := 0.0
	note := func(steps int64, L int) {
		x := float64(L + 16)
		if r := float64(steps) / (x * x * x); r > maxRatio {
			maxRatio = r
		}
	}
	for _, prop := range cssProps() {
		if c.Expired() {
			break
		}
		h := css.GetDefaultHandler(prop)
		var accepted []string
		for _, t := range pool {
			if len(t) > 40 || strings.TrimSpace(t) == "" {
				continue
			}
			ok := false
			_, ab, pm := underBudget(budgetFor(len(t)), func() { ok = h(t) })
			if ab || pm != "" {
				continue // single tokens are C18's business; the families below start from accepted ones
			}
			if ok {
				accepted = append(accepted, t)
			}
		}
		// truncation / splice layer: every prefix and every suffix of every accepted token, alone and after an accepted
		// token (unterminated function notation, half a number, a lone quote: where index arithmetic and re-joining
		// loops go wrong)
		for ti, t := range accepted {
			if ti >= 80 || len(t) > 40 || !c.Own([]byte("c14trunc"), []byte(prop+"|"+t)) {
				continue
			}
			var cands []string
			for k := 1; k < len(t); k++ {
				cands = append(cands, t[:k], t[k:], accepted[0]+" "+t[:k], "1px 1px "+t[:k], t[:k]+","+t[:k])
			}
			for _, v := range cands {
				c.Trace(func() string { return "handler " + prop + "\n" + run.Q(v) })
				_, ab, pm := underBudget(budgetFor(len(v)), func() { h(v) })
				c.Eval()
				c.States++
				c.Transitions++
				c.Traces++
				if pm != "" {
					c.Violate("panic|handler|"+prop, fmt.Sprintf("default handler for %s panicked on %s: %s", prop, run.Q(v), pm), mkC14("handler", spec.Spec{}, prop, v))
					break
				}
				if ab {
					c.Violate("slow|handler|"+prop, fmt.Sprintf("default handler for %s exceeded the step budget %d on the %d-byte value %s", prop, budgetFor(len(v)), len(v), run.Q(v)), mkC14("handler", spec.Spec{}, prop, v))
					c.Outcome("violation|slow-handler")
					break
				}
				c.Outcome("handler-within-budget")
			}
		}
		// ... and every prefix of every function-notation token of the whole pool (accepted by this handler or not)
		// after an accepted beginning: an unterminated "rgb(0,0" where a colour may follow
		if len(accepted) > 0 && c.Own([]byte("c14fn"), []byte(prop)) {
			nfn := 0
			for _, pt := range pool {
				if !strings.Contains(pt, "(") || len(pt) > 32 || nfn >= 60 {
					continue
				}
				nfn++
				for k := 1; k <= len(pt); k++ {
					for _, v := range []string{pt[:k], accepted[0] + " " + pt[:k], "1px 1px " + pt[:k], "1px 1px " + pt[:k] + ", 1px 1px"} {
						_, ab, pm := underBudget(budgetFor(len(v)), func() { h(v) })
						c.Eval()
						c.States++
						c.Transitions++
						c.Traces++
						if pm != "" {
							c.Violate("panic|handler|"+prop, fmt.Sprintf("default handler for %s panicked on %s: %s", prop, run.Q(v), pm), mkC14("handler", spec.Spec{}, prop, v))
						} else if ab {
							c.Violate("slow|handler|"+prop, fmt.Sprintf("default handler for %s exceeded the step budget %d on the %d-byte value %s", prop, budgetFor(len(v)), len(v), run.Q(v)), mkC14("handler", spec.Spec{}, prop, v))
							c.Outcome("violation|slow-handler")
						} else {
							c.Outcome("handler-within-budget")
						}
					}
				}
			}
		}
		toks := subPool(accepted, 12)
		for _, t := range toks {
			for _, sep := range []string{" ", ",", "/", " / "} {
				for _, term := range []string{"", sep + "@"} {
					fam := prop + "|" + t + "|" + sep + "|" + term
					if !c.Own([]byte("c14h"), []byte(fam)) {
						continue
					}
					for _, n := range sizes {
						v := strings.TrimSuffix(strings.Repeat(t+sep, n), sep) + term
						c.Trace(func() string { return "handler " + prop + "\n" + run.Q(v) })
						steps, ab, pm := underBudget(budgetFor(len(v)), func() { h(v) })
						c.Eval()
						c.States++
						c.Transitions++
						c.Traces++
						if n >= 4 {
							c.NontrivialN++
						}
						if pm != "" {
							c.Violate("panic|handler|"+prop, fmt.Sprintf("default handler for %s panicked on %s: %s", prop, run.Q(v), pm), mkC14("handler", spec.Spec{}, prop, v))
							break
						}
						if ab {
							c.Violate("slow|handler|"+prop, fmt.Sprintf("default handler for %s exceeded the step budget %d on a %d-byte value (%d x %q, separator %q, terminator %q)", prop, budgetFor(len(v)), len(v), n, t, sep, term), mkC14("handler", spec.Spec{}, prop, v))
							c.Outcome("violation|slow-handler")
							break
						}
						note(steps, len(v))
						c.Outcome("handler-within-budget")
					}
				}
			}
		}
	}
	hsizes := []int{1, 2, 4, 8, 16, 32, 64, 128, 256}
	if !c.Quick() {
		hsizes = append(hsizes, 512, 1024)
	}
	for _, fam := range htmlFamilies() {
		for _, b := range []*built{&on, &ugc} {
			if !c.Own([]byte("c14html"), []byte(fam.name+b.S.Name)) {
				continue
			}
			for _, n := range hsizes {
				doc := fam.gen(n)
				if strings.HasPrefix(fam.name, "shorthand-") && n > 96 {
					break
				}
				c.Trace(func() string { return "html " + fam.name + " " + b.S.Name + "\n" + fmt.Sprint(n) })
				steps, ab, pm := underBudget(budgetFor(len(doc)), func() { b.P.Sanitize(doc) })
				c.Eval()
				c.States++
				c.Transitions++
				c.Traces++
				if n >= 4 {
					c.NontrivialN++
				}
				if pm != "" {
					c.Violate("panic|html|"+fam.name, fmt.Sprintf("Sanitize panicked on family %s n=%d: %s", fam.name, n, pm), mkC14("html", b.S, fam.name, doc))
					break
				}
				if ab {
					c.Violate("slow|html|"+fam.name, fmt.Sprintf("Sanitize exceeded the step budget %d on the %d-byte member n=%d of family %s (policy %s)", budgetFor(len(doc)), len(doc), n, fam.name, b.S.Name), mkC14("html", b.S, fam.name, doc))
					c.Outcome("violation|slow-html")
					break
				}
				note(steps, len(doc))
				c.Outcome("html-within-budget")
				if c.WantSample() && n == 16 {
					c.Sample(map[string]interface{}{"family": fam.name, "policy": b.S.Name, "n": n, "bytes": len(doc), "steps": steps, "budget": budgetFor(len(doc))})
				}
			}
		}
	}
	if mr, ok := c.Notes["max_steps_over_cubic"].(float64); !ok || maxRatio > mr {
		c.Notes["max_steps_over_cubic_shard"] = maxRatio
	}
	if c.Shard == 0 {
		c.Notes["step_budget_K"] = stepK
	}
	// the largest ratio seen in this shard is reported as an outcome class so that it survives merging
	c.Outcome(fmt.Sprintf("max-ratio-bucket|%.3f", maxRatio))
}

func replayC14(raw json.RawMessage) (bool, string) {
	var x c14Case
	json.Unmarshal(raw, &x)
	in := string(run.UnB64(x.Input))
	switch x.Mode {
	case "entry":
		b := build(x.Spec)
		if hooks.Available {
			var pm string
			_, ab, pm2 := underBudget(8*budgetFor(len(in))+100000, func() { pm = allEntryPoints(b.P, []byte(in)) })
			return ab || pm != "" || pm2 != "", fmt.Sprintf("aborted=%v panic=%q%q", ab, pm, pm2)
		}
		pm := allEntryPoints(b.P, []byte(in))
		return pm != "", "panic: " + pm
	case "handler":
		if !hooks.Available {
			return false, "needs the instrumented build (bin/check replay uses it for C14)"
		}
		h := css.GetDefaultHandler(x.Prop)
		_, ab, pm := underBudget(budgetFor(len(in)), func() { h(in) })
		return ab || pm != "", fmt.Sprintf("aborted=%v panic=%q", ab, pm)
	case "html":
		b := build(x.Spec)
		if !hooks.Available {
			_, pm := San(b.P, in)
			return pm != "", "panic: " + pm
		}
		_, ab, pm := underBudget(budgetFor(len(in)), func() { b.P.Sanitize(in) })
		return ab || pm != "", fmt.Sprintf("aborted=%v panic=%q", ab, pm)
	}
	return false, "unknown mode"
}
