package checks

import (
	"net/url"
	"sort"
	"strings"

	"golang.org/x/net/html"

	"verif/harness/internal/obs"
	"verif/harness/internal/spec"
)

// Witness values per registered value pattern: strings of the documented form.
// A witness that the live pattern does not accept is silently not used (judging
// the patterns themselves is C19's job).
var witnesses = map[string][]string{
	"CellAlign":                        {"center", "LEFT", "char"},
	"CellVerticalAlign":                {"top", "Baseline"},
	"Direction":                        {"rtl", "LTR"},
	"ImageAlign":                       {"left", "absmiddle"},
	"Integer":                          {"12", "0"},
	"ISO8601":                          {"1997", "1997-07", "1997-07-16", "1997-07-16T19:20+01:00", "1997-07-16T19:20:30+01:00", "1997-07-16T19:20:30.45+01:00"},
	"ListType":                         {"circle", "A", "1"},
	"SpaceSeparatedTokens":             {"a b", "tok_1-x"},
	"Number":                           {"1.5", "-2e3", "7"},
	"NumberOrPercent":                  {"50%", "12"},
	"Paragraph":                        {"Some text, ok (fine)", "x"},
	`[a-zA-Z]{2,20}`:                   {"en", "enGB", "en-GB", "zh-Hant"},
	`[a-zA-Z0-9\:\-_\.]+`:              {"a1", "sec:1.2_x-y"},
	`(?i)^(|open)$`:                    {"", "open"},
	`^([\p{L}\p{N}_-]+)$`:              {"map1"},
	`^([0-9]+,)+[0-9]+$`:               {"1,2,3"},
	`(?i)^(default|circle|rect|poly)$`: {"rect", "POLY"},
	`(?i)^#[\p{L}\p{N}_-]+$`:           {"#map1"},
	`(?i)(?:row|col)(?:group)?`:        {"row", "colgroup"},
	`(?i)|nowrap`:                      {"", "nowrap"},
	`^[a-z]+$`:                         {"abc", "q"},
	`^[0-9]+$`:                         {"123", "7"},
	`^[a-z0-9]+$`:                      {"a1b2"},
	`^(red|green)$`:                    {"red", "green"},
	`^(blue)$`:                         {"blue"},
	`^x[0-9]$`:                         {"x1"},
	`^y[0-9]$`:                         {"y2"},
}

// canonical URL witnesses: url.Parse(x).String() == x and no escaping needed.
var urlWitnesses = map[string][]string{
	"http":   {"http://example.com/a?b=c"},
	"https":  {"https://e.x/"},
	"mailto": {"mailto:a@example.com"},
	"ftp":    {"ftp://e.x/f"},
	"":       {"/rel/path", "#frag", "page.html", "/wiki/Help:Contents"},
}

// attrWitnesses returns values for attribute key on el that the view's rules
// accept; each value is tagged with the index of the rule that justifies it so
// that overlapping rules are each exercised.
func attrWitnesses(v *spec.View, el, key string, strict bool) []string {
	var rules []spec.AttrRule
	if strict {
		rules = v.AttrRulesStrict(el, key)
	} else {
		rules = v.AttrRules(el, key)
	}
	if len(rules) == 0 {
		return nil
	}
	if v.ParseableURLs && isURLAttr(el, key) {
		var out []string
		var schemes []string
		for s := range v.Schemes {
			schemes = append(schemes, s)
		}
		sort.Strings(schemes)
		for _, s := range schemes {
			if len(v.Schemes[s]) > 0 {
				// custom-checked scheme: a witness is conforming when one of the registered checks accepts it
				for _, w := range urlWitnesses[s] {
					if u, err := url.Parse(w); err == nil {
						for _, fn := range v.Schemes[s] {
							if f := spec.URLPolicies[fn]; f != nil && f(u) {
								out = append(out, w)
								break
							}
						}
					}
				}
				continue
			}
			out = append(out, urlWitnesses[s]...)
		}
		if v.RelativeURLs {
			out = append(out, urlWitnesses[""]...)
		}
		// a URL value must additionally pass a value pattern if every rule has one
		var keep []string
		for _, u := range out {
			for _, r := range rules {
				if r.Re == nil || r.Re.MatchString(u) {
					keep = append(keep, u)
					break
				}
			}
		}
		return keep
	}
	seen := map[string]bool{}
	var out []string
	for _, r := range rules {
		if r.Re == nil {
			if !seen["v1"] {
				seen["v1"] = true
				out = append(out, "v1")
			}
			continue
		}
		for _, w := range witnesses[r.Re.String()] {
			if r.Re.MatchString(w) && !seen[w] {
				seen[w] = true
				out = append(out, w)
			}
		}
		for name, ws := range witnesses {
			if re := spec.Regexp(name); re == r.Re {
				for _, w := range ws {
					if r.Re.MatchString(w) && !seen[w] {
						seen[w] = true
						out = append(out, w)
					}
				}
			}
		}
	}
	return out
}

// applicableAttrs lists attribute names with at least one rule for el.
func applicableAttrs(v *spec.View, el string, strict bool) []string {
	set := map[string]bool{}
	for k := range v.ElemAttr[el] {
		set[k] = true
	}
	if !(strict && v.Elements[el]) {
		for _, pa := range v.PatAttr {
			if pa.Re.MatchString(el) {
				for k := range pa.Attrs {
					set[k] = true
				}
			}
		}
	}
	for k := range v.Global {
		set[k] = true
	}
	var out []string
	for k := range set {
		if k == "style" && v.StyleGoverned(el) {
			continue // style content is C10's business
		}
		out = append(out, k)
	}
	sort.Strings(out)
	return out
}

// startTag serialises canonically (the same serialiser the sanitiser re-emits with).
func startTag(el string, attrs []html.Attribute) string {
	return html.Token{Type: html.StartTagToken, Data: el, Attr: attrs}.String()
}

// tagVariants returns the conforming start tags of el with up to maxAttrs
// attributes (each attribute ranging over its witnesses).
func tagVariants(v *spec.View, el string, maxAttrs int, strict bool) []string {
	keys := applicableAttrs(v, el, strict)
	var out []string
	if v.BareAllowed(el) {
		out = append(out, startTag(el, nil))
	}
	type kv struct{ k, v string }
	var single []kv
	for _, k := range keys {
		for _, w := range attrWitnesses(v, el, k, strict) {
			single = append(single, kv{k, w})
		}
	}
	if v.DataAttrs {
		// well-formed data-* names (also with a second "data-" inside the name) are allowed on every allowed element
		for _, k := range []string{"data-k", "data-meta-data-id", "data-x-1.y_z"} {
			single = append(single, kv{k, "v1"})
		}
	}
	for _, a := range single {
		out = append(out, startTag(el, []html.Attribute{{Key: a.k, Val: a.v}}))
	}
	if maxAttrs >= 2 {
		for i, a := range single {
			for j, b := range single {
				if i == j || a.k == b.k {
					continue
				}
				out = append(out, startTag(el, []html.Attribute{{Key: a.k, Val: a.v}, {Key: b.k, Val: b.v}}))
			}
		}
	}
	if maxAttrs >= 3 && len(single) <= 12 {
		for i, a := range single {
			for j, b := range single {
				for k, c := range single {
					if i == j || j == k || i == k || a.k == b.k || b.k == c.k || a.k == c.k {
						continue
					}
					out = append(out, startTag(el, []html.Attribute{{Key: a.k, Val: a.v}, {Key: b.k, Val: b.v}, {Key: c.k, Val: c.v}}))
				}
			}
		}
	}
	return out
}

// rawish elements whose content the tokenizer treats specially; conforming
// documents do not put markup inside them.
var rawish = map[string]bool{"textarea": true, "title": true, "xmp": true, "iframe": true, "noembed": true, "noframes": true,
	"noscript": true, "plaintext": true, "script": true, "style": true}

// stripForced removes the attributes the spec instructs the sanitiser to add or
// rewrite, so that both sides of the C07 comparison ignore them.
func stripForced(v *spec.View, doc string) string {
	var b strings.Builder
	for _, t := range obs.Retok(doc) {
		tok := html.Token{Type: t.Type, Data: t.Data}
		switch t.Type {
		case html.StartTagToken, html.SelfClosingTagToken, html.EndTagToken:
			tok.Data = t.Name
			for _, a := range t.Attr {
				if a.Key == "rel" && v.LinkOptionOn() && (t.Name == "a" || t.Name == "area" || t.Name == "link" || t.Name == "base") {
					continue
				}
				if a.Key == "target" && v.TargetBlank && t.Name == "a" {
					continue
				}
				if a.Key == "crossorigin" && v.CrossOrigin {
					continue
				}
				if a.Key == "sandbox" && v.Sandbox != nil && t.Name == "iframe" {
					continue
				}
				if a.Key == "src" && v.Rewriter != "" {
					continue
				}
				tok.Attr = append(tok.Attr, a)
			}
		}
		b.WriteString(tok.String())
	}
	return b.String()
}
