// Package checks holds one check per property plus the shared alphabets,
// policy family and enumeration helpers.
package checks

import (
	"encoding/json"
	"fmt"
	"sort"

	"github.com/microcosm-cc/bluemonday"

	"verif/harness/internal/run"
	"verif/harness/internal/spec"
)

// All is the registry of checks.
var All = map[string]*run.Check{}

func register(c *run.Check) {
	if orig := c.Replay; orig != nil {
		// A case that does not fail on a fresh policy is tried once more on a policy that first sanitised the
		// inputs which preceded it in the run (recorded in the case): some defects need an earlier call.
		c.Replay = func(raw json.RawMessage) (bool, string) {
			ok, what := orig(raw)
			if ok {
				return ok, what
			}
			var cs Case
			if json.Unmarshal(raw, &cs) != nil || len(cs.Before) == 0 {
				return ok, what
			}
			primeNext = cs.Before
			defer func() { primeNext = nil }()
			if ok2, what2 := orig(raw); ok2 {
				return true, what2 + fmt.Sprintf(" -- only after the same policy had sanitised %d earlier inputs of the run (listed in the case), not on a fresh policy", len(cs.Before))
			}
			return ok, what
		}
	}
	All[c.ID] = c
}

// primeNext, when set (replay only), makes build() sanitise these inputs (base64) eight times over on the new policy.
var primeNext []string

// the last few inputs each policy object sanitised, for the case records
type inputRing struct {
	buf [12]string
	n   int
}

var (
	recentInputs = map[*bluemonday.Policy]*inputRing{}
	lastSan      *bluemonday.Policy
)

// IDs lists registered check ids, sorted.
func IDs() []string {
	var out []string
	for k := range All {
		out = append(out, k)
	}
	sort.Strings(out)
	return out
}

// ---- calling into bluemonday under recover ------------------------------------------

// San calls p.Sanitize(in) and converts a panic into (_, msg).
func San(p *bluemonday.Policy, in string) (out string, panicMsg string) {
	r := recentInputs[p]
	if r == nil {
		r = &inputRing{}
		recentInputs[p] = r
	}
	r.buf[r.n%len(r.buf)] = in
	r.n++
	lastSan = p
	defer func() {
		if r := recover(); r != nil {
			panicMsg = fmt.Sprint(r)
		}
	}()
	return p.Sanitize(in), ""
}

// ---- sequence enumeration with incremental hashing ------------------------------------

type hstate struct{ h1, h2 uint64 }

func hinit() hstate { return hstate{14695981039346656037, 0x9e3779b97f4a7c15} }

func (s hstate) add(p []byte) hstate {
	for _, b := range p {
		s.h1 ^= uint64(b)
		s.h1 *= 1099511628211
		s.h2 ^= uint64(b)
		s.h2 *= 0x100000001b3 + 0x2000
		s.h2 ^= s.h2 >> 29
	}
	return s
}

func (s hstate) fin() [2]uint64 {
	s.h1 ^= 0xff
	s.h1 *= 1099511628211
	s.h2 ^= 0xfe
	s.h2 *= 0x100000001b3 + 0x2000
	return [2]uint64{s.h1, s.h2}
}

// Seqs enumerates every sequence of minLen..maxLen fragments over alpha,
// shortest first, and calls fn for each distinct concatenation owned by this
// shard. idx is the fragment index sequence (valid only during the call).
func Seqs(c *run.Ctx, alpha []string, minLen, maxLen int, fn func(input []byte, idx []int)) {
	SeqsS(c, "", alpha, minLen, maxLen, fn)
}

// SeqsS is Seqs with a salt that distinguishes enumerations whose sequences are
// embedded in different contexts (sharding and de-duplication are per salt).
func SeqsS(c *run.Ctx, salt string, alpha []string, minLen, maxLen int, fn func(input []byte, idx []int)) {
	ab := make([][]byte, len(alpha))
	for i, a := range alpha {
		ab[i] = []byte(a)
	}
	buf := make([]byte, 0, 256)
	idx := make([]int, 0, maxLen)
	for L := minLen; L <= maxLen; L++ {
		var rec func(depth int, hs hstate)
		rec = func(depth int, hs hstate) {
			if c.Expired() {
				return
			}
			if depth == L {
				if c.OwnHash(hs.fin()) {
					fn(buf, idx)
				}
				return
			}
			for i, a := range ab {
				n := len(buf)
				buf = append(buf, a...)
				idx = append(idx, i)
				rec(depth+1, hs.add(a))
				buf = buf[:n]
				idx = idx[:len(idx)-1]
			}
		}
		rec(0, hinit().add([]byte(salt)))
		if c.Expired() {
			c.Cap(fmt.Sprintf("sequence length %d not completed", L))
			return
		}
	}
}

// Bytes enumerates every byte string of length minLen..maxLen over alpha.
func Bytes(c *run.Ctx, alpha []byte, minLen, maxLen int, fn func(input []byte)) {
	BytesS(c, "", alpha, minLen, maxLen, fn)
}

// BytesS is Bytes with a salt (see SeqsS).
func BytesS(c *run.Ctx, salt string, alpha []byte, minLen, maxLen int, fn func(input []byte)) {
	as := make([]string, len(alpha))
	for i, b := range alpha {
		as[i] = string([]byte{b})
	}
	SeqsS(c, salt, as, minLen, maxLen, func(in []byte, _ []int) { fn(in) })
}

// ---- case records -----------------------------------------------------------------------

// Case is the replayable record of a (spec, input) evaluation.
type Case struct {
	Spec  spec.Spec       `json:"spec"`
	Input string          `json:"input_b64"`
	Human string          `json:"input_quoted"`
	Extra json.RawMessage `json:"extra,omitempty"`
	// Before: what the same policy object sanitised just before (oldest first, base64); used by the replay only if
	// the case does not fail on a fresh policy
	Before []string `json:"sanitised_before_b64,omitempty"`
}

func mkCase(s spec.Spec, in []byte) Case {
	c := Case{Spec: s, Input: run.B64(in), Human: run.Q(string(in))}
	if r := recentInputs[lastSan]; r != nil && len(in) < 4096 {
		n := len(r.buf)
		for i := r.n - n; i < r.n-1; i++ { // the newest entry is this input itself
			if i >= 0 && len(r.buf[i%n]) < 4096 {
				c.Before = append(c.Before, run.B64([]byte(r.buf[i%n])))
			}
		}
	}
	return c
}

func parseCase(raw json.RawMessage) (Case, []byte) {
	var c Case
	json.Unmarshal(raw, &c)
	return c, run.UnB64(c.Input)
}

// built is a spec with its real policy and view.
type built struct {
	S spec.Spec
	P *bluemonday.Policy
	V *spec.View
}

func build(s spec.Spec) built {
	b := built{S: s, P: spec.Build(s), V: spec.ViewOf(s)}
	if primeNext != nil {
		for rep := 0; rep < 8; rep++ {
			for _, x := range primeNext {
				func() {
					defer func() { recover() }()
					b.P.Sanitize(string(run.UnB64(x)))
				}()
			}
		}
	}
	return b
}

func buildAll(ss []spec.Spec) []built {
	out := make([]built, len(ss))
	for i, s := range ss {
		out[i] = build(s)
	}
	return out
}
