package checks

import (
	"encoding/json"
	"fmt"
	"strings"

	"golang.org/x/net/html"

	"verif/harness/internal/obs"
	"verif/harness/internal/run"
	"verif/harness/internal/spec"
)

// C01 — only allowlisted elements reach the output.

func init() {
	register(&run.Check{
		ID:    "C01",
		Level: "model_checking",
		Rule: "bounded-exhaustive: every fragment sequence up to length k over alphabet F and every byte string up to length n over alphabet B, " +
			"crossed with a family of policies assembled through the exported builder API; each executed on the real Sanitize and judged by re-tokenising and " +
			"re-parsing (8 flow contexts) the output. A case is a distinct (policy, input); non-trivial = output differs from input (something was removed or rewritten). " +
			"states = distinct inputs (prefix-tree nodes) explored, transitions = (policy,input) executions.",
		Assumptions: []string{
			"observer is x/net/html's tokenizer and ParseFragment in flow-content containers (body div p td li span blockquote section), as the property states",
			"nothing is claimed beyond the listed alphabets, length bounds and policy family",
		},
		QuickBudget: 50, ThoroughBudget: 800,
		Run:    runC01,
		Replay: replayC01,
	})
}

func c01Specs(c *run.Ctx) (named []spec.Spec, subsets []spec.Spec) {
	named = specsByName("strict", "bpbr", "ugc", "bpbr-spaces", "bpbr-comments", "pattern", "pattern-bare",
		"attrs", "rawtext", "foreign", "skipmod", "cmd-email", "everything-named", "styles", "media", "iframe-attrs-only",
		"pattern-std-names", "ugc-spaces-comments", "literal-bp", "rare-builder-forms", "options-without-elements", "literal-options-first", "unsafe-no-script", "unsafe-unskipped-no-script", "rawtext-comments")
	if c.Quick() {
		subsets = subsetSpecs(2)
	} else {
		subsets = subsetSpecs(3)
	}
	return
}

// judgeC01 returns ("","") if the output satisfies C01 under view v.
func judgeC01(v *spec.View, out string, dom bool) (sig, what string) {
	toks := obs.Retok(out)
	for _, t := range toks {
		switch t.Type {
		case html.StartTagToken, html.EndTagToken, html.SelfClosingTagToken:
			if (t.Name == "script" || t.Name == "style") && !v.Unsafe {
				return "tok|" + t.Name, "script/style tag <" + t.Name + "> in output"
			}
			if !v.ElementAllowed(t.Name) {
				return "tok|element", "tokenizer finds tag of non-allowlisted element <" + t.Name + "> in output"
			}
		case html.CommentToken:
			if !v.Comments {
				return "tok|comment", "comment in output although comments are not allowed"
			}
		case html.DoctypeToken:
			return "tok|doctype", "doctype in output"
		}
	}
	if !dom {
		return "", ""
	}
	for _, ctx := range obs.FlowContexts {
		ns := obs.DOM(out, ctx)
		obs.Walk(ns, func(n *html.Node) {
			if sig != "" {
				return
			}
			switch n.Type {
			case html.ElementNode:
				name := obs.ASCIILower(n.Data)
				if (name == "script" || name == "style") && !v.Unsafe {
					sig, what = "dom|"+name, "tree builder ("+ctx+" context) finds <"+name+"> element"
					return
				}
				if v.ElementAllowed(name) {
					return
				}
				if (name == "tbody" || name == "tr" || name == "colgroup") && obs.HasAncestor(n, "table") {
					return // implied by the tree builder from an allowed table child
				}
				if name == "img" && v.ElementAllowed("image") {
					return
				}
				sig, what = "dom|element", "tree builder ("+ctx+" context) finds non-allowlisted element <"+name+">"
			case html.CommentNode:
				if !v.Comments {
					sig, what = "dom|comment", "tree builder ("+ctx+" context) finds a comment node"
				}
			case html.DoctypeNode:
				sig, what = "dom|doctype", "tree builder finds a doctype"
			}
		})
		if sig != "" {
			return
		}
	}
	return "", ""
}

func runC01(c *run.Ctx) {
	named, subsets := c01Specs(c)
	nb := buildAll(named)
	sb := buildAll(subsets)

	eval := func(bs []built, in []byte, dom bool) {
		s := string(in)
		c.States++
		for i := range bs {
			b := &bs[i]
			c.Trace(func() string { return b.S.String() + "\n" + run.Q(s) })
			out, pm := San(b.P, s)
			c.Eval()
			c.Transitions++
			c.Traces++
			if pm != "" {
				c.Violate("panic", "Sanitize panicked: "+pm, mkCase(b.S, in))
				continue
			}
			if out != s {
				c.Nontrivial([]byte(b.S.Name), in)
			}
			sig, what := judgeC01(b.V, out, dom)
			if sig != "" {
				c.Violate(sig, fmt.Sprintf("%s; policy=%s input=%s output=%s", what, b.S.Name, run.Q(s), run.Q(out)), mkCase(b.S, in))
				c.Outcome("violation|" + sig)
			} else if c.Tracing() == false {
				switch {
				case out == s:
					c.Outcome(b.S.Name + "|unchanged")
				case out == "":
					c.Outcome(b.S.Name + "|emptied")
				case !strings.Contains(out, "<"):
					c.Outcome(b.S.Name + "|text-only")
				default:
					c.Outcome(b.S.Name + "|markup-kept")
				}
			}
			if c.WantSample() && out != s && len(in) > 6 {
				c.Sample(map[string]string{"policy": b.S.Name, "input": s, "output": out})
			}
		}
	}

	all := fragAll()
	both := append(append([]built{}, nb...), sb...)
	if c.Quick() {
		// layer 1: full alphabet k<=2 on named + subset policies, with DOM; layer 2: k=3 on named, k=4 over the core
		Seqs(c, all, 0, 2, func(in []byte, _ []int) { eval(both, in, true) })
		Seqs(c, all, 3, 3, func(in []byte, _ []int) { eval(nb, in, false) })
		Seqs(c, fragCore, 4, 4, func(in []byte, _ []int) { eval(nb[:7], in, false) })
	} else {
		// thorough: k<=2 on named + every <=3-subset policy with DOM; k=3 on named + <=2-subsets; k=4 over the core with DOM; k=5 over the core
		Seqs(c, all, 0, 2, func(in []byte, _ []int) { eval(both, in, true) })
		small := append(append([]built{}, nb...), buildAll(subsetSpecs(2))...)
		Seqs(c, all, 3, 3, func(in []byte, _ []int) { eval(small, in, false) })
		Seqs(c, fragCore, 4, 4, func(in []byte, _ []int) { eval(nb, in, true) })
		Seqs(c, fragCore, 5, 5, func(in []byte, _ []int) { eval(nb[:6], in, false) })
	}
	// layer 2b: core + exotic syntax alphabet, k<=3, named policies (k<=2 with DOM)
	SeqsS(c, "exotic", fragCoreExotic(), 0, 2, func(in []byte, _ []int) { eval(nb, in, true) })
	SeqsS(c, "exotic", fragCoreExotic(), 3, 3, func(in []byte, _ []int) { eval(nb[:6], in, false) })
	// layer 3: byte-exhaustive
	nbytes := 5
	if !c.Quick() {
		nbytes = 6
	}
	bsSpecs := buildAll(specsByName("bpbr-comments", "everything-named", "ugc"))
	if !c.Quick() {
		bsSpecs = bsSpecs[:2]
	}
	BytesS(c, "bytes", byteAlpha, 1, nbytes, func(in []byte) { eval(bsSpecs, in, false) })
	c.Notes["policies"] = float64(0)
	if c.Shard == 0 {
		c.Notes["policies"] = float64(len(both))
		c.Notes["alphabet_F"] = float64(len(all))
		c.Notes["alphabet_B"] = float64(len(byteAlpha))
	}
}

func replayC01(raw json.RawMessage) (bool, string) {
	cs, in := parseCase(raw)
	b := build(cs.Spec)
	out, pm := San(b.P, string(in))
	if pm != "" {
		return true, "panic: " + pm
	}
	sig, what := judgeC01(b.V, out, true)
	return sig != "", what + " output=" + run.Q(out)
}
