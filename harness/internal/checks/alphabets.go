package checks

// Fragment alphabets. Ordered simplest-first so that the first counterexample
// found is also the shortest.

// fragCore: one representative of every token class the token loop distinguishes.
var fragCore = []string{
	"a", " ", "&amp;", "<", ">",
	"<b>", "</b>", "<p>", "</p>", "<x>", "</x>", "<br>", "<br/>",
	"<i id=q>", "<a href=\"http://e.x/\">", "</a>",
	"<script>", "</script>", "<style>", "</style>",
	"<!--", "-->", "<title>", "</title>",
	"<my-x id=a>", "</my-x>", "<object>", "</object>", "<img src=x>",
}

// fragMore extends fragCore to the full alphabet F.
var fragMore = []string{
	"&lt;", "&#13;", "&#0;", "\r", "\x00", "\xff", "\U0001F600", "\ufeff", "&", "\"", "'", "=", "/",
	"<B>", "<b", "<b ", "</", "<a href=", "<a href=\"", "<b/>", "<x/>",
	"<SCRIPT>", "<script/>", "<scrİpt>", "</SCRIPT>", "<style/>",
	"--!>", "<!-->", "--&gt;", "--!&gt;", "<![CDATA[", "]]>", "<?pi?>", "<!DOCTYPE html>", "<!",
	"<textarea>", "</textarea>", "<xmp>", "</xmp>", "<iframe>", "</iframe>", "<noscript>", "<plaintext>",
	"<svg>", "</svg>", "<math>", "<desc>", "<foreignobject>", "<table>", "<td>", "<select>",
	"<p id=a id=b>", "<i id=\"q\" onclick=x>", "<i id='q'>", "<i id>", "<b \"=\"x\">", "<b a<b=c>", "<b =x>",
	"<my-y>", "</my-y>", "<a href=\"javascript:x\">", "<img src=\"http://e.x/i\" alt=\"&lt;b&gt;\">",
	"<d\u0130v id=q>", "</d\u0130v>", "<mar\u212a title=t>", "<\u0130 id=q>", "<stri\u212ae>",
	"<b data-k=\"a&amp;b&lt;\" id=q>",
	"<input src=x>", "<frameset>", "</frameset>", "<span title=\"a&quot;b\" data-k=\"v\">", "</span>",
}

func fragAll() []string { return append(append([]string{}, fragCore...), fragMore...) }

// fragExotic: unusual but possible syntax, enumerated together with the core (not part of F, to keep |F|^3 small).
var fragExotic = []string{
	// self-closing forms of every class
	"<textarea/>", "<title/>", "<object/>", "<iframe/>", "<a href=\"http://e.x/\"/>", "<p/>", "<my-x id=a/>", "<img src=x/>", "<script src=x/>",
	// every void element, bare and with an attribute
	"<source>", "<input>", "<embed>", "<area>", "<track>", "<link>", "<meta>", "<param>", "<base>", "<col>", "<hr>", "<wbr>", "<area href=\"/x\">", "<source src=x>",
	// a comment opened as the first thing inside a raw-text element
	"<noscript><!--</noscript>", "<xmp><!--</xmp>",
	// end-tag oddities
	"</B>", "</b x=1>", "</b/>", "</p\n>", "</ b>", "</br>", "</my-y>", "</object>", "</title >",
	// separators and odd characters inside tags
	"<b\n>", "<b\tid=q>", "<p\x0cid=a>", "<b\x00>", "<a\x00b>", "<p id=a/x=y>", "<p id = a>", "<p id=\"a\"title=t>", "<i id=q id=r>", "<p ID=A>",
	// non-ASCII look-alikes of allowed names
	"<\u212a>", "<lin\u212a>", "<t\u0130tle>", "<p\u0307>", "<\uff42>",
	// skip-set elements with attributes, nested skip openers
	"<object data=x>", "<iframe src=x>", "<frame src=x>", "<noscript>", "</noscript>", "<noframes>", "<nostyle>",
	// URL-bearing elements whose only attribute is a refused URL
	"<img src=\"javascript:x\">", "<audio src=\"x y\">", "<link href=\"javascript:x\">", "<area href=\"http://e.x/\">", "<img src=\"http://e.x/i\" crossorigin=\"use-credentials\">",
	// attribute values with escapable characters, data attributes
	"<b title=\"a&amp;b&lt;c&gt;&#34;d\">", "<span data-k=\"a&amp;b\" id=q>", "<a href=\"/x?a=1&amp;b=2\">", "<a href=\"/x\" rel=\"x\" target=\"_blank\">",
}

func fragCoreExotic() []string { return append(append([]string{}, fragCore...), fragExotic...) }

// byteAlpha: B, for shallow byte-exhaustive runs.
var byteAlpha = []byte{'<', '>', '/', '!', '-', '?', '=', '"', '\'', '&', ';', '#', ' ', '\t', '\n', 0, 'a', 'b', 's', 'x', '0', 0xc3}

// urlFrags: the URL fragment alphabet (C03, C20).
var urlFrags = []string{
	"http", "https", "javascript", "JaVa", "script", "data", "mailto", "vbscript",
	":", "&#58;", "&colon;", "&Tab;", "\t", "\n", "\r", " ", "/", "//", "\\", "%3a", "%0a", "\x01", "\x00",
	"@", "?", "#", ".", "a", "é", " ", " ", "%", "[", "]", "&#0;", "&#1;", "&#x1f;", "\x7f", "\x0b", "\x0c",
	"e.x", "&amp;", "=", "&",
	"%2F", "%2f", "%5c", "<", // an encoded slash / backslash (a path that decodes to "//..."), a character the normal form must escape
}

// urlPrefixes / urlTailFrags: well-formed beginnings and the fragments that matter at the end of a URL.
var urlPrefixes = []string{"http://e.x/", "http://e.x", "/p", "mailto:a@e.x", "//e.x/p", "http:/", "http:", "https:e.x", "ftp://e.x/", "tel:1"}
var urlTailFrags = []string{"?", "#", "/", ".", ":", "@", "a", "=", "&amp;", "%", "%3a", "%0a", "%20", " ", "\u00a0", "\u2003", "\t", "\n", "\\", "é", "[", "]", "&#0;", "\x7f", "+", "%2F", "%2f", "<", "%26"}

// dataURIFrags: the data: URI fragment alphabet (C03, C14).
var dataURIFrags = []string{"data:", "DATA:", "image/png", "image/svg+xml", "image/gif", "text/html", ";base64,", ";base64", ",", "iVBORw0KGgo=", "AAAA", "AA", " ", "\n", "\r", "\t", "#", "?", "x", "<script>", ";charset=utf-8", "%20", "&#10;", "="}

// urlBytes: byte alphabet for shallow byte-exhaustive URL strings.
var urlBytes = []byte{'j', 's', ':', '/', ' ', '\t', '\n', '%', '\\', '#', '?', 0x01, 'a'}

// htmlAttrEscape escapes a raw attribute value for embedding in double quotes
// WITHOUT touching '&' (so character references in the alphabet stay references).
func htmlAttrQuote(v string) string {
	out := make([]byte, 0, len(v)+2)
	out = append(out, '"')
	for i := 0; i < len(v); i++ {
		if v[i] == '"' {
			out = append(out, "&quot;"...)
		} else {
			out = append(out, v[i])
		}
	}
	return string(append(out, '"'))
}
