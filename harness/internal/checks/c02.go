package checks

import (
	"encoding/json"
	"fmt"
	"strings"
	"unicode/utf8"

	"golang.org/x/net/html"

	"verif/harness/internal/obs"
	"verif/harness/internal/run"
	"verif/harness/internal/spec"
)

// C02 — only allowlisted attributes with accepted values reach the output.

func init() {
	register(&run.Check{
		ID:    "C02",
		Level: "model_checking",
		Rule: "bounded-exhaustive: every attribute list of length <=2 (thorough 3) over a 42-attribute alphabet (incl. values that match the policies' element patterns) on every policy, and one level deeper on three element classes with every twelfth generated policy, (allowed / disallowed / duplicated / unquoted / single-quoted / valueless / entity-encoded / data-* shapes) on six element classes, as start and self-closing tags, " +
			"crossed with a generated slice of policies that crosses rule scope (element / element-pattern / global) x value pattern yes/no x overlapping second rule x AllowNoAttrs x data attributes, plus named policies with forced attributes and style rules; " +
			"plus the generic fragment layers. Oracle: every attribute of every output tag (tokenizer and DOM) is justified by a rule of the spec view, a well-formed data-* name (HTML's custom data attribute: XML-compatible, no upper case), a governed style attribute or a forced attribute; a tag with no attribute must be bare-allowed. " +
			"non-trivial = the input tag carried at least one attribute that was removed or the tag was dropped.",
		Assumptions: []string{
			"justification uses the union of element, element-pattern and global rules (the lenient reading of the statement), so precedence between explicit and pattern rules is not judged here",
			"for URL attributes under URL checking the input attribute of the same tag and name is judged, as the statement says",
		},
		QuickBudget: 50, ThoroughBudget: 800,
		Run:    runC02,
		Replay: replayC02,
	})
}

func wellFormedDataAttr(k string) bool {
	if !strings.HasPrefix(k, "data-") {
		return false
	}
	rest := k[len("data-"):]
	if rest == "" {
		return false
	}
	if strings.HasPrefix(rest, "xml") && len(rest) > 3 {
		return false
	}
	if !utf8.ValidString(rest) {
		return false
	}
	for _, r := range rest {
		if r >= 0x80 && !xmlNameCharBeyondASCII(r) {
			return false
		}
	}
	for i := 0; i < len(rest); i++ {
		// XML-compatible and without upper case (HTML "custom data attribute"): of the ASCII range only lower-case
		// letters, digits, '.', '-' and '_' are name characters (':' is excluded by HTML)
		ch := rest[i]
		if ch < 0x80 && !(ch >= 'a' && ch <= 'z' || ch >= '0' && ch <= '9' || ch == '.' || ch == '-' || ch == '_') {
			return false
		}
	}
	return true
}

// xmlNameCharBeyondASCII: XML 1.0 (fifth edition) production [4a] NameChar, the part above U+007F.
func xmlNameCharBeyondASCII(r rune) bool {
	for _, rg := range [][2]rune{{0xB7, 0xB7}, {0xC0, 0xD6}, {0xD8, 0xF6}, {0xF8, 0x37D}, {0x37F, 0x1FFF}, {0x200C, 0x200D}, {0x203F, 0x2040},
		{0x2070, 0x218F}, {0x2C00, 0x2FEF}, {0x3001, 0xD7FF}, {0xF900, 0xFDCF}, {0xFDF0, 0xFFFD}, {0x10000, 0xEFFFF}, {0x300, 0x36F}} {
		if r >= rg[0] && r <= rg[1] {
			return true
		}
	}
	return false
}

func isURLAttr(el, key string) bool {
	switch key {
	case "href":
		return el == "a" || el == "area" || el == "base" || el == "link"
	case "cite":
		return el == "blockquote" || el == "del" || el == "ins" || el == "q"
	case "src":
		switch el {
		case "audio", "embed", "iframe", "img", "input", "script", "source", "track", "video":
			return true
		}
	}
	return false
}

// attrJustified decides whether attribute a on element el is justified under v.
// inAttrs are the attributes of the corresponding input tag (nil if unknown).
func attrJustified(v *spec.View, el string, a html.Attribute, inAttrs []html.Attribute) (bool, string) {
	// forced attributes
	switch a.Key {
	case "rel":
		if v.LinkOptionOn() && (el == "a" || el == "area" || el == "link" || el == "base") {
			return true, ""
		}
	case "target":
		if v.TargetBlank && el == "a" && a.Val == "_blank" {
			return true, ""
		}
	case "crossorigin":
		if v.CrossOrigin && a.Val == "anonymous" {
			switch el {
			case "audio", "img", "link", "script", "video":
				return true, ""
			}
		}
	case "sandbox":
		if v.Sandbox != nil && el == "iframe" {
			return true, ""
		}
	}
	if v.DataAttrs && wellFormedDataAttr(a.Key) {
		return true, ""
	}
	if a.Key == "style" && v.StyleGoverned(el) {
		return true, "" // content judged by C10
	}
	rules := v.AttrRules(el, a.Key)
	if len(rules) == 0 {
		if strings.HasPrefix(a.Key, "data-") && v.DataAttrs {
			return false, "ill-formed data-* attribute " + run.Q(a.Key) + " kept"
		}
		return false, "attribute " + run.Q(a.Key) + " on <" + el + "> is not allowed by any rule"
	}
	vals := []string{a.Val}
	if v.ParseableURLs && isURLAttr(el, a.Key) {
		vals = nil
		for _, ia := range inAttrs {
			if ia.Key == a.Key {
				vals = append(vals, ia.Val)
			}
		}
		if inAttrs == nil {
			vals = []string{a.Val}
		}
	}
	for _, r := range rules {
		if r.Re == nil {
			return true, ""
		}
		for _, val := range vals {
			if r.Re.MatchString(val) {
				return true, ""
			}
		}
	}
	return false, fmt.Sprintf("attribute %s=%s on <%s> kept although no registered value pattern accepts it", a.Key, run.Q(a.Val), el)
}

// judgeC02 checks every tag of the output. inTags are the start/self-closing tags
// of the input in order; the k-th output tag is matched to the first not yet
// consumed input tag with the same name.
func judgeC02(v *spec.View, in, out string, dom bool) (sig, what string) {
	var inTags []obs.Tok
	for _, t := range obs.Retok(in) {
		if t.Type == html.StartTagToken || t.Type == html.SelfClosingTagToken {
			inTags = append(inTags, t)
		}
	}
	pos := 0
	for _, t := range obs.Retok(out) {
		if t.Type != html.StartTagToken && t.Type != html.SelfClosingTagToken {
			continue
		}
		var ia []html.Attribute
		found := false
		for pos < len(inTags) {
			if inTags[pos].Name == t.Name {
				ia = inTags[pos].Attr
				if ia == nil {
					ia = []html.Attribute{}
				}
				pos++
				found = true
				break
			}
			pos++
		}
		if !found {
			ia = nil
		}
		if len(t.Attr) == 0 {
			if !v.BareAllowed(t.Name) && v.ElementAllowed(t.Name) {
				return "bare|" + t.Name, "<" + t.Name + "> emitted without attributes although the policy permits it only with attributes"
			}
			continue
		}
		for _, a := range t.Attr {
			ok, why := attrJustified(v, t.Name, a, ia)
			if !ok {
				cls := "attr"
				if strings.HasPrefix(a.Key, "data-") {
					cls = "data-attr"
				} else if strings.Contains(why, "value pattern") {
					cls = "attr-value"
				}
				return cls, why
			}
		}
	}
	if dom {
		for _, ctx := range []string{"body", "div"} {
			obs.Walk(obs.DOM(out, ctx), func(n *html.Node) {
				if sig != "" || n.Type != html.ElementNode {
					return
				}
				el := obs.ASCIILower(n.Data)
				for _, a := range n.Attr {
					key := a.Key
					if a.Namespace != "" {
						key = a.Namespace + ":" + a.Key
					}
					ok, why := attrJustified(v, el, html.Attribute{Key: obs.ASCIILower(key), Val: a.Val}, nil)
					if !ok {
						// the tree builder may re-case or re-namespace names in foreign content; judge the plain name too
						ok2, _ := attrJustified(v, el, html.Attribute{Key: obs.ASCIILower(a.Key), Val: a.Val}, nil)
						if !ok2 && !(v.ParseableURLs && isURLAttr(el, a.Key)) {
							sig, what = "dom-attr", "tree builder ("+ctx+"): "+why
						}
					}
				}
			})
			if sig != "" {
				return
			}
		}
	}
	return "", ""
}

var c02Attrs = []string{
	` id=abc`, ` id=123`, ` id="a b"`, ` id=""`, ` id`, ` ID=abc`, ` id='abc'`, ` id="&#97;bc"`, ` id="&amp;#97;bc"`, ` id="abc&#10;x"`,
	` title=t`, ` title="<x>"`, ` onclick=x`, ` name=n`, ` name=7`,
	` data-x=1`, ` data-xmlfoo=1`, ` data-x;=1`, ` data-data-;x=1`, ` data-a"b<c=1`, ` data-a'b=1`, ` data-a:b=1`, ` data-a.b_c-d=1`, " data-\u0085=1", " data-a\u00a0b=1", " data-\u00e9=1", " data-\u2028=1", " data-\xff=1", ` data-=1`, ` data-data-xmlq=1`, ` xdata-y=1`, ` aria-data-x=1`,
	` style="color:red"`, ` href="javascript:x"`, ` href=/ok`, ` lang=en`,
	// values that match the element patterns of the policies (a rule must judge values by its value pattern, not by
	// whatever other regexp the builder had at hand)
	` id=my-x`, ` name=my-xy`,
	// attribute names that Unicode (not ASCII) lower-casing folds onto allowed names
	" \u0130d=abc", " t\u0130tle=t", " \u212aind=k",
}

var c02Elements = []string{"span", "a", "my-x", "my-xy", "my-y", "q"}

func c02Specs(c *run.Ctx) []built {
	var out []spec.Spec
	type r = []C
	r1s := []r{
		nil,
		{attrsOn([]string{"id"}, "", "span", "my-x")},
		{attrsOn([]string{"id"}, `^[a-z]+$`, "span", "my-x", "a")},
		{attrsPat([]string{"id"}, "", reMy)},
		{attrsPat([]string{"id"}, `^[a-z]+$`, reMy)},
		{attrsGlob([]string{"id"}, "")},
		{attrsGlob([]string{"id"}, `^[a-z]+$`)},
		{C{Op: "AllowAttrs", Names: []string{"id"}, Re: `^[a-z]+$`, NoAttrs: true, Scope: "on", On: []string{"my-x", "a"}}},
		{C{Op: "AllowAttrs", Names: []string{"id"}, Re: `^[a-z]+$`, NoAttrs: true, Scope: "matching", OnRe: reMy}},
	}
	r2s := []r{
		nil,
		{attrsGlob([]string{"title"}, "Paragraph")},
		{attrsGlob([]string{"id"}, `^[0-9]+$`)},
		{attrsPat([]string{"id", "name"}, `^[0-9]+$`, reMyX)},
		{attrsOn([]string{"href"}, "", "a"), {Op: "AllowStandardURLs"}},
	}
	es := []r{
		{els("span", "my-x", "q")},
		{{Op: "AllowElementsMatching", Re: reMy}},
		{els("span", "my-x"), {Op: "AllowElementsMatching", Re: reMyX}},
	}
	ns := []r{
		nil,
		{{Op: "AllowNoAttrs", Scope: "on", On: []string{"my-x", "a"}}},
		{{Op: "AllowNoAttrs", Scope: "matching", OnRe: reMyX}},
	}
	for i1, r1 := range r1s {
		for i2, r2 := range r2s {
			for ie, e := range es {
				for in, n := range ns {
					for d := 0; d < 2; d++ {
						var calls []C
						calls = append(calls, e...)
						calls = append(calls, r1...)
						calls = append(calls, r2...)
						calls = append(calls, n...)
						if d == 1 {
							calls = append(calls, C{Op: "AllowDataAttributes"})
						}
						out = append(out, spec.Spec{Name: fmt.Sprintf("c02-r%d-s%d-e%d-n%d-d%d", i1, i2, ie, in, d), Base: "new", Calls: calls})
					}
				}
			}
		}
	}
	out = append(out, specsByName("ugc", "attrs", "links", "media", "styles", "pattern", "pattern-bare", "cmd-email", "ugc-spaces-comments", "rare-builder-forms")...)
	out = append(out, spec.Spec{Name: "c02-spaces", Base: "new", Calls: []C{els("span", "q"), attrsOn([]string{"id"}, `^[a-z]+$`, "a", "my-x"), attrsPat([]string{"name"}, "", reMyX),
		attrsGlob([]string{"title"}, ""), opt("AddSpaceWhenStrippingTag", true)}})
	return buildAll(out)
}

func runC02(c *run.Ctx) {
	bs := c02Specs(c)
	eval := func(set []built, in []byte, dom bool) {
		s := string(in)
		c.States++
		for i := range set {
			b := &set[i]
			c.Trace(func() string { return b.S.String() + "\n" + run.Q(s) })
			out, pm := San(b.P, s)
			c.Eval()
			c.Transitions++
			c.Traces++
			if pm != "" {
				c.Violate("panic", "Sanitize panicked: "+pm, mkCase(b.S, in))
				continue
			}
			nt := strings.Count(out, "=") < strings.Count(s, "=") || (strings.Contains(s, "<") && !strings.Contains(out, "<"))
			if nt {
				c.Nontrivial([]byte(b.S.Name), in)
			}
			sig, what := judgeC02(b.V, s, out, dom)
			if sig != "" {
				c.Violate(sig, fmt.Sprintf("%s; policy=%s input=%s output=%s", what, b.S.Name, run.Q(s), run.Q(out)), mkCase(b.S, in))
				c.Outcome("violation|" + sig)
				continue
			}
			switch {
			case !strings.Contains(out, "<"):
				c.Outcome("tag-dropped")
			case !strings.Contains(out, "="):
				c.Outcome("tag-kept-bare")
			case nt:
				c.Outcome("some-attrs-removed")
			default:
				c.Outcome("all-attrs-kept")
			}
			if c.WantSample() && (nt || strings.Contains(out, "=")) && len(s) > 12 {
				c.Sample(map[string]string{"policy": b.S.Name, "input": s, "output": out})
			}
		}
	}
	// layer A: every attribute list up to kA on every element class, both tag forms, every policy
	kA := 2
	if !c.Quick() {
		kA = 3
	}
	// (elements and tag forms vary fastest, so that consecutive executions on one policy object mix element classes)
	SeqsS(c, "c02A", c02Attrs, 0, kA, func(attrs []byte, idx []int) {
		for _, el := range c02Elements {
			for _, sc := range []string{">", "/>"} {
				eval(bs, []byte("<"+el+string(attrs)+sc+"t</"+el+">"), len(idx) <= 1)
			}
		}
	})
	// layer B: one level deeper on the explicit and the pattern element, every twelfth generated policy plus the named ones
	var fifth []built
	for i := range bs {
		if i%12 == 0 || !strings.HasPrefix(bs[i].S.Name, "c02-") {
			fifth = append(fifth, bs[i])
		}
	}
	SeqsS(c, "c02B", c02Attrs, kA+1, kA+1, func(attrs []byte, idx []int) {
		for _, el := range []string{"span", "my-x", "my-y"} {
			eval(fifth, []byte("<"+el+string(attrs)+">t</"+el+">"), false)
		}
	})
	// generic fragment layer with a few policies
	gs := pick(bs, "ugc", "attrs", "links", "media", "styles", "cmd-email", "pattern-bare")
	kk := 2
	if !c.Quick() {
		kk = 3
	}
	Seqs(c, fragAll(), 1, kk, func(in []byte, _ []int) { eval(gs, in, true) })
	SeqsS(c, "exotic", fragCoreExotic(), 1, 2, func(in []byte, _ []int) { eval(gs, in, false) })
	if c.Shard == 0 {
		c.Notes["policies"] = float64(len(bs))
		c.Notes["attribute_alphabet"] = float64(len(c02Attrs))
	}
}

func replayC02(raw json.RawMessage) (bool, string) {
	cs, in := parseCase(raw)
	b := build(cs.Spec)
	out, pm := San(b.P, string(in))
	if pm != "" {
		return true, "panic: " + pm
	}
	sig, what := judgeC02(b.V, string(in), out, true)
	return sig != "", what + " output=" + run.Q(out)
}
