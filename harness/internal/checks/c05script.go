package checks

import (
	"strings"

	"golang.org/x/net/html/atom"

	"golang.org/x/net/html"
	"verif/harness/internal/obs"
)

// whatwgScriptEnd is an independent transcription of the script-data states of the HTML standard's tokenizer
// (13.2.5.4 and 13.2.5.15 - 13.2.5.31): s is what follows a <script ...> start tag; the result is the index of
// the '<' of the end tag that closes the element, or len(s) if nothing closes it. It knows the escaped
// ("<!--") and double-escaped ("<!-- ... <script") states, which x/net/html's tokenizer leaves too early.
func whatwgScriptEnd(s string) int {
	const (
		data = iota
		escaped
		escapedDash
		escapedDashDash
		dbl
		dblDash
		dblDashDash
	)
	isEnd := func(c byte) bool { return c == '\t' || c == '\n' || c == '\f' || c == ' ' || c == '/' || c == '>' }
	isAlpha := func(c byte) bool { return c >= 'a' && c <= 'z' || c >= 'A' && c <= 'Z' }
	// nameAt: the ASCII letters at s[i:], lower-cased, and the index after them
	nameAt := func(i int) (string, int) {
		j := i
		for j < len(s) && isAlpha(s[j]) {
			j++
		}
		return obs.ASCIILower(s[i:j]), j
	}
	st := data
	for i := 0; i < len(s); {
		c := s[i]
		switch st {
		case data:
			if c != '<' {
				i++
				continue
			}
			if strings.HasPrefix(s[i:], "</") {
				if n, j := nameAt(i + 2); n == "script" && j < len(s) && isEnd(s[j]) {
					return i
				}
				i += 2
				continue
			}
			if strings.HasPrefix(s[i:], "<!--") {
				st = escapedDashDash
				i += 4
				continue
			}
			i++
		case escaped, escapedDash, escapedDashDash:
			switch {
			case c == '-':
				if st == escaped {
					st = escapedDash
				} else {
					st = escapedDashDash
				}
				i++
			case c == '>' && st == escapedDashDash:
				st = data
				i++
			case c == '<':
				if strings.HasPrefix(s[i:], "</") {
					if n, j := nameAt(i + 2); n == "script" && j < len(s) && isEnd(s[j]) {
						return i
					}
					st = escaped
					i += 2
					continue
				}
				if i+1 < len(s) && isAlpha(s[i+1]) {
					n, j := nameAt(i + 1)
					if j < len(s) && isEnd(s[j]) && n == "script" {
						st = dbl
						i = j + 1
						continue
					}
					st = escaped
					i = j
					continue
				}
				st = escaped
				i++
			default:
				st = escaped
				i++
			}
		case dbl, dblDash, dblDashDash:
			switch {
			case c == '-':
				if st == dbl {
					st = dblDash
				} else {
					st = dblDashDash
				}
				i++
			case c == '>' && st == dblDashDash:
				st = data
				i++
			case c == '<':
				if strings.HasPrefix(s[i:], "</") {
					n, j := nameAt(i + 2)
					if j < len(s) && isEnd(s[j]) && n == "script" {
						st = escaped
						i = j + 1
						continue
					}
					st = dbl
					if j < i+2 {
						j = i + 2
					}
					i = j
					continue
				}
				st = dbl
				i++
			default:
				st = dbl
				i++
			}
		}
	}
	return len(s)
}

// whatwgScriptBody: if the first tag of the document (text and comments may precede it) is a script start tag in the
// token stream of x/net's tokenizer, the text a browser's tokenizer makes that element's content; ok=false otherwise.
func whatwgScriptBody(in string) (body string, ok bool) {
	z := html.NewTokenizer(strings.NewReader(in))
	off := 0
	for {
		tt := z.Next()
		raw := len(z.Raw())
		switch tt {
		case html.ErrorToken:
			return "", false
		case html.TextToken, html.CommentToken:
			off += raw
			continue
		case html.StartTagToken:
			name, _ := z.TagName()
			if string(name) != "script" {
				return "", false
			}
			rest := in[off+raw:]
			return rest[:whatwgScriptEnd(rest)], true
		default:
			return "", false
		}
	}
}

// markersIn lists the numbered markers in s.
func markersIn(s string) []string {
	var out []string
	for {
		i := strings.Index(s, "qz")
		if i < 0 {
			return out
		}
		j := strings.Index(s[i:], "zq")
		if j < 0 {
			return out
		}
		out = append(out, s[i:i+j+2])
		s = s[i+j+2:]
	}
}

// markersInScriptStyleScriptingOff lists the markers that x/net's tree builder places inside a script / style
// element under a noscript element when it parses the input the way a browser with scripting disabled does
// (noscript content is markup then, not raw text).
func markersInScriptStyleScriptingOff(in string) map[string]bool {
	out := map[string]bool{}
	if !strings.Contains(obs.ASCIILower(in), "<noscript") {
		return out
	}
	for _, ctx := range []string{"body", "div"} {
		c := &html.Node{Type: html.ElementNode, Data: ctx, DataAtom: atom.Lookup([]byte(ctx))}
		ns, err := html.ParseFragmentWithOptions(strings.NewReader(in), c, html.ParseOptionEnableScripting(false))
		if err != nil {
			continue
		}
		obs.Walk(ns, func(n *html.Node) {
			if n.Type == html.TextNode && obs.HasAncestor(n, "script", "style") && obs.HasAncestor(n, "noscript") {
				for _, m := range markersIn(n.Data) {
					out[m] = true
				}
			}
		})
	}
	return out
}
