package checks

import (
	"fmt"

	"verif/harness/internal/spec"
)

type C = spec.Call

func els(n ...string) C { return C{Op: "AllowElements", Names: n} }
func attrsOn(attrs []string, re string, on ...string) C {
	return C{Op: "AllowAttrs", Names: attrs, Re: re, Scope: "on", On: on}
}
func attrsPat(attrs []string, re string, onre string) C {
	return C{Op: "AllowAttrs", Names: attrs, Re: re, Scope: "matching", OnRe: onre}
}
func attrsGlob(attrs []string, re string) C {
	return C{Op: "AllowAttrs", Names: attrs, Re: re, Scope: "global"}
}
func opt(op string, b bool) C { return C{Op: op, Bool: b} }

const reMy = `^my-[a-z]+$`
const reMyX = `^my-x`

// cmdEmailCalls is the harness's reconstruction of cmd/sanitise_html_email's
// documented policy (on top of UGC).
func cmdEmailCalls() []C {
	const color = `(?i)^(#[0-9a-fA-F]{1,6}|black|silver|gray|white|maroon|red|purple|fuchsia|green|lime|olive|yellow|navy|blue|teal|aqua|orange|aliceblue|antiquewhite|aquamarine|azure|beige|bisque|blanchedalmond|blueviolet|brown|burlywood|cadetblue|chartreuse|chocolate|coral|cornflowerblue|cornsilk|crimson|darkblue|darkcyan|darkgoldenrod|darkgray|darkgreen|darkgrey|darkkhaki|darkmagenta|darkolivegreen|darkorange|darkorchid|darkred|darksalmon|darkseagreen|darkslateblue|darkslategray|darkslategrey|darkturquoise|darkviolet|deeppink|deepskyblue|dimgray|dimgrey|dodgerblue|firebrick|floralwhite|forestgreen|gainsboro|ghostwhite|gold|goldenrod|greenyellow|grey|honeydew|hotpink|indianred|indigo|ivory|khaki|lavender|lavenderblush|lawngreen|lemonchiffon|lightblue|lightcoral|lightcyan|lightgoldenrodyellow|lightgray|lightgreen|lightgrey|lightpink|lightsalmon|lightseagreen|lightskyblue|lightslategray|lightslategrey|lightsteelblue|lightyellow|limegreen|linen|mediumaquamarine|mediumblue|mediumorchid|mediumpurple|mediumseagreen|mediumslateblue|mediumspringgreen|mediumturquoise|mediumvioletred|midnightblue|mintcream|mistyrose|moccasin|navajowhite|oldlace|olivedrab|orangered|orchid|palegoldenrod|palegreen|paleturquoise|palevioletred|papayawhip|peachpuff|peru|pink|plum|powderblue|rosybrown|royalblue|saddlebrown|salmon|sandybrown|seagreen|seashell|sienna|skyblue|slateblue|slategray|slategrey|snow|springgreen|steelblue|tan|thistle|tomato|turquoise|violet|wheat|whitesmoke|yellowgreen|rebeccapurple)$`
	return []C{
		els("html", "head", "body", "title"),
		attrsOn([]string{"type"}, `(?i)^text\/css$`, "style"),
		attrsGlob([]string{"style"}, ""),
		els("font", "main", "nav", "header", "footer", "kbd", "legend"),
		attrsOn([]string{"type"}, `(?i)^[a-zA-Z][a-zA-Z-]{1,30}[a-zA-Z]$`, "button"),
		attrsOn([]string{"bgcolor", "color"}, color, "basefont", "font", "hr"),
		attrsOn([]string{"border"}, "Integer", "img", "table"),
		attrsOn([]string{"cellpadding", "cellspacing"}, "Integer", "table"),
		{Op: "AllowStyling"},
		{Op: "AllowDataURIImages"},
		opt("RequireNoFollowOnLinks", true),
		opt("RequireNoFollowOnFullyQualifiedLinks", true),
		opt("AddTargetBlankToFullyQualifiedLinks", true),
	}
}

func cmdUGCCalls() []C {
	return []C{
		opt("RequireNoFollowOnLinks", true),
		opt("RequireNoFollowOnFullyQualifiedLinks", true),
		opt("AddTargetBlankToFullyQualifiedLinks", true),
	}
}

// Named specs. Order: simplest first.
func namedSpecs() []spec.Spec {
	bpbr := []C{els("b", "p", "br", "i")}
	w := func(base []C, more ...C) []C { return append(append([]C{}, base...), more...) }
	return []spec.Spec{
		{Name: "strict", Base: "strict"},
		{Name: "bpbr", Base: "new", Calls: bpbr},
		{Name: "ugc", Base: "ugc"},
		{Name: "bpbr-spaces", Base: "new", Calls: w(bpbr, opt("AddSpaceWhenStrippingTag", true))},
		{Name: "bpbr-comments", Base: "new", Calls: w(bpbr, C{Op: "AllowComments"})},
		{Name: "pattern", Base: "new", Calls: []C{
			{Op: "AllowElementsMatching", Re: reMy},
			attrsPat([]string{"id"}, `^[a-z]+$`, reMy),
			els("b"),
		}},
		{Name: "pattern-bare", Base: "new", Calls: []C{
			{Op: "AllowNoAttrs", Scope: "matching", OnRe: reMy},
			attrsPat([]string{"id"}, "", reMyX),
			els("b", "p"),
		}},
		{Name: "attrs", Base: "new", Calls: []C{
			attrsOn([]string{"href"}, "", "a"),
			attrsOn([]string{"title"}, "Paragraph", "a", "span"),
			attrsGlob([]string{"id"}, `^[a-z0-9]+$`),
			attrsGlob([]string{"lang"}, ""),
			els("b", "p", "div"),
			{Op: "AllowDataAttributes"},
		}},
		{Name: "links", Base: "new", Calls: []C{
			attrsOn([]string{"href", "rel", "target"}, "", "a", "area", "link"),
			{Op: "AllowStandardURLs"},
			opt("RequireNoReferrerOnLinks", true),
			opt("AddTargetBlankToFullyQualifiedLinks", true),
			els("b"),
		}},
		{Name: "rawtext", Base: "new", Calls: []C{
			els("textarea", "title", "xmp", "noscript", "plaintext", "noembed", "noframes", "b"),
			attrsOn([]string{"name"}, "", "iframe"),
			C{Op: "AllowNoAttrs", Scope: "on", On: []string{"iframe"}},
		}},
		{Name: "rawtext-comments", Base: "new", Calls: []C{
			els("textarea", "title", "xmp", "noscript", "b"),
			C{Op: "AllowNoAttrs", Scope: "on", On: []string{"noscript", "xmp"}}, {Op: "AllowComments"},
		}},
		{Name: "foreign", Base: "new", Calls: []C{
			els("svg", "math", "desc", "title", "foreignobject", "mi", "mtext", "annotation-xml", "g", "b", "p", "table", "tr", "td", "select", "option"),
			attrsGlob([]string{"id"}, ""),
		}},
		{Name: "skipmod", Base: "new", Calls: []C{
			els("p", "i"),
			{Op: "SkipElementsContent", Names: []string{"b", "select"}},
			{Op: "AllowElementsContent", Names: []string{"object", "title"}},
		}},
		{Name: "cmd-ugc", Base: "ugc", Calls: cmdUGCCalls()},
		{Name: "cmd-email", Base: "ugc", Calls: cmdEmailCalls()},
		{Name: "media", Base: "new", Calls: []C{
			attrsOn([]string{"src", "crossorigin", "alt"}, "", "img", "audio", "video", "source", "track", "embed", "input"),
			attrsOn([]string{"src", "sandbox", "name"}, "", "iframe"),
			attrsOn([]string{"href", "crossorigin"}, "", "link", "base"),
			attrsOn([]string{"cite"}, "", "blockquote", "q", "del", "ins"),
			{Op: "AllowURLSchemes", Names: []string{"http", "https"}},
			opt("AllowRelativeURLs", true),
			opt("RequireCrossOriginAnonymous", true),
			{Op: "RequireSandboxOnIFrame", Ints: []int{2, 10}},
			{Op: "RewriteSrc", Fn: "proxy"},
		}},
		{Name: "styles", Base: "new", Calls: []C{
			els("p", "span", "b"),
			attrsGlob([]string{"style"}, ""),
			{Op: "AllowStyles", Names: []string{"color", "text-align"}, Scope: "global"},
			{Op: "AllowStyles", Names: []string{"font-family"}, Re: `^[a-z ,]*$`, Scope: "on", On: []string{"span"}},
			{Op: "AllowStyles", Names: []string{"width"}, Enum: []string{"1px", "2px"}, Scope: "matching", OnRe: `^(p|my-[a-z]+)$`},
		}},
		{Name: "iframe-attrs-only", Base: "new", Calls: []C{
			attrsOn([]string{"name", "title"}, "", "iframe", "textarea", "xmp", "title", "noscript"),
			els("p"),
			{Op: "AllowElementsContent", Names: []string{"iframe", "title", "noscript"}},
		}},
		{Name: "pattern-std-names", Base: "new", Calls: []C{
			{Op: "AllowNoAttrs", Scope: "matching", OnRe: `^(b|object|title|iframe|my-[a-z]+)$`},
			attrsPat([]string{"id", "src", "data"}, "", `^(object|iframe|img|p)$`),
			{Op: "AllowNoAttrs", Scope: "matching", OnRe: `^zz-`},
		}},
		{Name: "ugc-spaces-comments", Base: "ugc", Calls: []C{opt("AddSpaceWhenStrippingTag", true), {Op: "AllowComments"}}},
		{Name: "literal-bp", Base: "literal", Calls: []C{els("b", "p"), attrsGlob([]string{"id"}, "")}},
		// rarely used forms of the attribute builder: AllowNoAttrs() finished with Globally() (a no-op: there is
		// no attribute name), AllowAttrs(..).AllowNoAttrs() in every scope, with and without a value pattern
		{Name: "rare-builder-forms", Base: "new", Calls: []C{
			els("b", "p"),
			{Op: "AllowNoAttrs", Scope: "global"},
			{Op: "AllowAttrs", Names: []string{"lang"}, NoAttrs: true, Scope: "global"},
			{Op: "AllowAttrs", Names: []string{"id"}, Re: `^[a-z]+$`, NoAttrs: true, Scope: "on", On: []string{"span", "a"}},
			{Op: "AllowAttrs", Names: []string{"name"}, NoAttrs: true, Scope: "matching", OnRe: reMyX},
			{Op: "AllowNoAttrs", Re: `^[a-z]+$`, Scope: "matching", OnRe: `^zz-[a-z]+$`},
			{Op: "AllowNoAttrs", Re: `^[a-z]+$`, Scope: "on", On: []string{"i"}},
			{Op: "AllowAttrs", Names: []string{"onclick", "id"}, Scope: "on", On: []string{}}, // OnElements() with no element: a rule for nothing
		}},
		// every forcing / switching option set, none of the elements they concern allowed: an option must never admit anything
		{Name: "options-without-elements", Base: "new", Calls: []C{
			els("b", "p"),
			{Op: "RequireSandboxOnIFrame", Ints: []int{2, 10}}, opt("RequireCrossOriginAnonymous", true),
			opt("RequireNoFollowOnLinks", true), opt("RequireNoReferrerOnLinks", true), opt("AddTargetBlankToFullyQualifiedLinks", true),
			{Op: "AllowURLSchemes", Names: []string{"http", "https"}}, opt("AllowRelativeURLs", true), {Op: "AllowDataAttributes"},
			{Op: "AllowStyles", Names: []string{"color"}, Scope: "global"}, {Op: "RewriteSrc", Fn: "proxy"},
		}},
		// AllowUnsafe(true) without allowing script / style themselves: the switch admits nothing by itself, and what a
		// dropped script / style element contained must not come out as markup (with and without un-skipped content)
		{Name: "unsafe-no-script", Base: "new", Calls: []C{els("b", "p"), opt("AllowUnsafe", true)}},
		{Name: "unsafe-unskipped-no-script", Base: "new", Calls: []C{els("b", "p"), opt("AllowUnsafe", true), {Op: "AllowElementsContent", Names: []string{"script", "style"}}}},
		// a zero-value Policy{} whose options are set before the first call that initialises its tables
		{Name: "literal-options-first", Base: "literal", Calls: []C{
			opt("AddSpaceWhenStrippingTag", true), {Op: "AllowComments"}, opt("AllowRelativeURLs", true), opt("RequireNoFollowOnLinks", true),
			els("b", "p"), attrsOn([]string{"href"}, "", "a"),
		}},
		{Name: "everything-named", Base: "new", Calls: []C{
			{Op: "AllowElementsMatching", Re: `^[a-z0-9-]+$`},
			attrsGlob([]string{"id", "class", "title", "href", "src", "name"}, ""),
			{Op: "AllowNoAttrs", Scope: "matching", OnRe: `^[a-z0-9-]+$`},
			{Op: "AllowElementsContent", Names: []string{"script", "style", "iframe", "object", "title", "noscript", "noembed", "noframes", "frameset", "frame", "nostyle"}},
		}},
	}
}

func specByName(name string) spec.Spec {
	for _, s := range namedSpecs() {
		if s.Name == name {
			return s
		}
	}
	panic("no spec " + name)
}

func specsByName(names ...string) []spec.Spec {
	var out []spec.Spec
	for _, n := range names {
		out = append(out, specByName(n))
	}
	return out
}

// builderAlphabet is the call alphabet whose subsets (size <= 3) on top of
// NewPolicy() form the configuration family.
func builderAlphabet() []C {
	return []C{
		els("b", "a"),
		els("p", "span", "my-y"),
		attrsOn([]string{"href"}, "", "a"),
		attrsOn([]string{"id"}, `^[a-z]+$`, "b", "span"),
		attrsGlob([]string{"title"}, ""),
		attrsGlob([]string{"id"}, `^[0-9]+$`),
		{Op: "AllowElementsMatching", Re: reMy},
		attrsPat([]string{"id", "name"}, "", reMyX),
		{Op: "AllowNoAttrs", Scope: "matching", OnRe: reMy},
		{Op: "AllowNoAttrs", Scope: "on", On: []string{"a", "object"}},
		{Op: "AllowStandardURLs"},
		opt("AddSpaceWhenStrippingTag", true),
		{Op: "AllowDataAttributes"},
		{Op: "SkipElementsContent", Names: []string{"b", "my-y"}},
		{Op: "AllowElementsContent", Names: []string{"iframe", "title"}},
		{Op: "AllowComments"},
		opt("AddTargetBlankToFullyQualifiedLinks", true),
	}
}

// subsetSpecs returns NewPolicy()+S for every subset S (in alphabet order) of
// the builder alphabet with |S| <= k, optionally skipping calls by Op.
func subsetSpecs(k int, skipOps ...string) []spec.Spec {
	al := builderAlphabet()
	skip := map[string]bool{}
	for _, o := range skipOps {
		skip[o] = true
	}
	var keep []C
	for _, c := range al {
		if !skip[c.Op] {
			keep = append(keep, c)
		}
	}
	var out []spec.Spec
	var rec func(start int, cur []C)
	rec = func(start int, cur []C) {
		if len(cur) > 0 {
			out = append(out, spec.Spec{Name: fmt.Sprintf("subset-%d", len(out)), Base: "new", Calls: append([]C{}, cur...)})
		}
		if len(cur) == k {
			return
		}
		for i := start; i < len(keep); i++ {
			rec(i+1, append(cur, keep[i]))
		}
	}
	rec(0, nil)
	return out
}
