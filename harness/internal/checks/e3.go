package checks

import (
	"bytes"
	"encoding/json"
	"fmt"
	"os"
	"os/exec"
	"strings"
	"sync"
	"time"

	"github.com/microcosm-cc/bluemonday"

	"verif/harness/internal/hooks"
	"verif/harness/internal/run"
	"verif/harness/internal/spec"
)

// E3 — controlled scheduler over the instrumented implementation. Serves C13.
//
// Goroutines sanitise on one shared, finished policy. Exactly one goroutine runs
// at a time; every instrumented statement (VerifPoint) hands control back to the
// explorer, which enumerates all interleavings with at most c preemptions
// (iterative context bounding). Every execution of a rewritten map range is a
// further explorer choice among the permutations of its keys.

func init() {
	register(&run.Check{
		ID:    "C13",
		Level: "model_checking",
		Rule: "stateless model checking of the real implementation under a cooperative scheduler: 2 goroutines (thorough: also 3) sanitise different short inputs on ONE finished policy built with three overlapping element patterns carrying attribute and style rules, global / element / pattern style rules, a custom URL check, a src rewriter and link options; " +
			"scheduling points = every statement of package bluemonday and function entries / loop heads of package css (overlay); depth-first search over choice sequences with iterative preemption bounding (quick: c<=2 on one input pair and on two short documents with removed elements, c<=1 on five more pairs and on the streaming entry point; thorough: c<=2 on all six pairs, three goroutines at c<=1, c<=3 and map orders on a pair of very short inputs, two calls per goroutine at c<=2, and last three goroutines at c<=2 as far as the budget allows); executions always run to completion; " +
			"in a second exploration every execution of a `range` over a map is a choice among all permutations of its keys (deviation bound 2 from sorted order, alone and combined with <=1 preemption; a map with more than four keys is ranged in sorted or in reverse order), incl. a probe whose property names carry two stacked vendor prefixes. " +
			"Before anything else, in the fresh process: after a warm-up of calls on the shared policy, fresh instances of two other policies must reproduce the probe outputs they gave before (results do not depend on earlier calls on another policy). Sequential histories: on 13 policies (shared policy, shipped policies, link options followed by RequireParseableURLs(false), shorthand CSS properties, ...), for all ordered pairs (x, y) of 119 inputs, y after x on one fresh instance equals the result of the first and only call of a fresh process (so that process-global state cannot taint the reference); a deviation is re-derived with the shortest history that reproduces in a fresh process. Oracle per execution: every call returns exactly the sequential result, repeated calls agree, and sanitising does not change later behaviour: the deep snapshot of the policy object graph is compared before and after every execution (package-level variables every 32nd) and, if it changed, the used policy must still agree with a fresh one on 11 probe documents (an object change without behaviour change is noted in the evidence, not reported). A recorded schedule is replayed twice and must reproduce the same point trace. " +
			"Separately (outside the family, because a cooperative scheduler's hand-offs are happens-before edges): the same bodies run free under Go's race detector, 4 goroutines x 2000 iterations. " +
			"states = scheduling / map-order choice points visited, transitions = complete executions; non-trivial = executions with at least one preemption or one non-sorted map order." +
			" Enum entries of the shared policy are in mixed case; in the race pass the shared policy meets its first calls concurrently and one call in four is SanitizeReaderToWriter into a Write-only destination.",
		Assumptions: []string{
			"memory model: sequentially consistent interleaving at statement granularity; unsynchronised accesses are the race detector's part",
			"policies are built through NewPolicy and the builder API before sharing, as the property states",
		},
		QuickBudget: 50, ThoroughBudget: 800,
		MaxProcs: 1,
		Run:      runC13,
		Replay:   replayC13,
	})
}

func c13Spec() spec.Spec {
	return spec.Spec{Name: "c13-shared", Base: "new", Calls: []C{
		els("p", "span", "b"),
		attrsPat([]string{"id"}, `^[a-z]+$`, reMy),
		attrsPat([]string{"name"}, "", reMyX),
		{Op: "AllowNoAttrs", Scope: "matching", OnRe: reMyX},
		attrsPat([]string{"title"}, "", `^my-xy$`),
		{Op: "AllowStyles", Names: []string{"color"}, Scope: "global"},
		{Op: "AllowStyles", Names: []string{"color"}, Enum: []string{"Red"}, Scope: "on", On: []string{"p"}},
		{Op: "AllowStyles", Names: []string{"width"}, Re: `^[0-9]+px$`, Scope: "matching", OnRe: reMy},
		{Op: "AllowStyles", Names: []string{"height"}, Enum: []string{"1px", "2PX"}, Scope: "matching", OnRe: reMyX},
		{Op: "AllowStyles", Names: []string{"width"}, Enum: []string{"auto"}, Scope: "matching", OnRe: `^my-xy$`},
		attrsGlob([]string{"style"}, ""),
		attrsOn([]string{"href"}, "", "a"), attrsOn([]string{"src"}, "", "img"),
		{Op: "AllowURLSchemes", Names: []string{"https"}},
		{Op: "AllowURLSchemeWithCustomPolicy", Names: []string{"http"}, Fn: "host-example.org"},
		opt("AllowRelativeURLs", true),
		{Op: "AllowURLSchemesMatching", Re: `^(tel|web\+[a-z]+)$`},
		{Op: "RewriteSrc", Fn: "proxy"},
		opt("RequireNoFollowOnLinks", true), opt("AddTargetBlankToFullyQualifiedLinks", true),
	}}
}

var c13Inputs = []string{
	`<my-xy id=a style="width: 5px; color: blue">t</my-xy>`,
	`<my-y style="width: 7px"><a href="http://example.org/">l</a></my-y>`,
	`<img src="https://e.x/i.png"><p style="color: red">x</p>`,
	`<my-x style="height: 2px"><a>z</a></my-x>`,
}

// ---- the explorer ---------------------------------------------------------------------

type choicePoint struct {
	kind  byte // 's' scheduling, 'm' map order
	nalts int
	cost  int // cost of taking a non-default alternative: preemption (0/1) for 's', 1 for 'm'
}

type execution struct {
	choices []int
	points  []choicePoint
	results []string
	panics  []string
	trace   uint64
	snapOK  bool
	snapMsg string
}

type explorer struct {
	mk      func() *bluemonday.Policy // a fresh, finished policy for every execution
	p       *bluemonday.Policy
	bodies  []func(p *bluemonday.Policy) string
	mapMode bool // map-order choices enabled
	schedOn bool

	// per run
	prefix  []int
	x       *execution
	current int
	resume  []chan struct{}
	events  chan int // goroutine id that yielded (>=0) or finished (-1-id)
	running bool

	runs       int
	globalSnap string
}

func factorial(n int) int {
	f := 1
	for i := 2; i <= n; i++ {
		f *= i
	}
	return f
}

// nthPerm returns the k-th permutation (lexicographic) of 0..n-1; k=0 is identity.
func nthPerm(n, k int) []int {
	el := make([]int, n)
	for i := range el {
		el[i] = i
	}
	out := make([]int, 0, n)
	for i := n; i >= 1; i-- {
		f := factorial(i - 1)
		idx := k / f
		k %= f
		out = append(out, el[idx])
		el = append(el[:idx], el[idx+1:]...)
	}
	return out
}

func (e *explorer) choose(kind byte, nalts, cost int) int {
	i := len(e.x.choices)
	alt := 0
	if i < len(e.prefix) {
		alt = e.prefix[i]
		if alt >= nalts {
			panic(fmt.Sprintf("explorer: replay divergence at choice %d: alternative %d of %d", i, alt, nalts))
		}
	}
	e.x.choices = append(e.x.choices, alt)
	e.x.points = append(e.x.points, choicePoint{kind, nalts, cost})
	return alt
}

func (e *explorer) run(prefix []int) *execution {
	n := len(e.bodies)
	e.prefix = prefix
	e.x = &execution{results: make([]string, n), panics: make([]string, n)}
	e.resume = make([]chan struct{}, n)
	e.events = make(chan int)
	finished := make([]bool, n)
	e.runs++
	fullSnap := e.runs%32 == 1
	e.p = e.mk()
	snap0 := hooks.SnapshotPolicy(e.p)
	if fullSnap && e.globalSnap == "" {
		e.globalSnap = hooks.SnapshotGlobals()
	}
	for g := 0; g < n; g++ {
		e.resume[g] = make(chan struct{})
		go func(g int) {
			<-e.resume[g]
			defer func() {
				if r := recover(); r != nil {
					e.x.panics[g] = fmt.Sprint(r)
				}
				e.events <- -1 - g
			}()
			e.x.results[g] = e.bodies[g](e.p)
		}(g)
	}
	if e.schedOn {
		hooks.SetPoint(func(id int) {
			g := e.current
			e.x.trace = e.x.trace*1099511628211 ^ uint64(id*31+g)
			e.events <- g
			<-e.resume[g]
		})
	}
	if e.mapMode {
		hooks.SetMapOrder(func(site, k int) []int {
			if k > 4 {
				// larger maps: sorted order or its reverse (every pair of keys is seen in both relative orders)
				if e.choose('m', 2, 1) == 0 {
					return nil
				}
				rev := make([]int, k)
				for i := range rev {
					rev[i] = k - 1 - i
				}
				return rev
			}
			alt := e.choose('m', factorial(k), 1)
			return nthPerm(k, alt)
		})
	}
	e.current = 0
	remaining := n
	cur := 0
	curAlive := true
	first := true
	for remaining > 0 {
		// enabled goroutines in canonical order: the running one first if still alive, then ascending ids
		var enabled []int
		if curAlive && !first {
			enabled = append(enabled, cur)
		}
		for g := 0; g < n; g++ {
			if !finished[g] && !(curAlive && !first && g == cur) {
				enabled = append(enabled, g)
			}
		}
		next := enabled[0]
		if len(enabled) > 1 && e.schedOn {
			cost := 0
			if curAlive && !first {
				cost = 1 // switching away from a runnable goroutine is a preemption
			}
			next = enabled[e.choose('s', len(enabled), cost)]
		}
		first = false
		cur = next
		e.current = cur
		e.resume[cur] <- struct{}{}
		ev := <-e.events
		if ev < 0 {
			finished[-1-ev] = true
			remaining--
			curAlive = false
		} else {
			curAlive = true
		}
	}
	hooks.SetPoint(nil)
	hooks.SetMapOrder(nil)
	snap1 := hooks.SnapshotPolicy(e.p)
	e.x.snapOK = snap0 == snap1
	if !e.x.snapOK {
		e.x.snapMsg = firstSnapDiff(snap0, snap1)
	}
	if e.x.snapOK && fullSnap {
		// package-level variables are dumped every 32nd execution (a change there persists)
		if g1 := hooks.SnapshotGlobals(); g1 != e.globalSnap {
			e.x.snapOK = false
			e.x.snapMsg = "package-level variable: " + firstSnapDiff(e.globalSnap, g1)
			e.globalSnap = g1
		}
	}
	return e.x
}

// c13Probes exercise every rule of the shared policy from each side: elements matching one, two or three
// of the overlapping patterns, each carrying the attributes and style properties of the other patterns.
var c13Probes = []string{
	`<my-y id=a name=7 title=t style="width: 5px; height: 1px; color: blue; width: auto">y</my-y>`,
	`<my-x id=a name=7 title=t style="width: 5px; height: 1px; color: blue; width: auto">x</my-x>`,
	`<my-xy id=a name=7 title=t style="width: 5px; height: 1px; color: blue; width: auto">xy</my-xy>`,
	`<my-xyz id=a name=7 title=t style="width: auto; height: 2px">xyz</my-xyz></my-y></my-x></my-xy>`,
	`<p id=a style="color: red; color: blue; width: 5px">p</p><span style="color: red; height: 1px">s</span>`,
	`<a href="http://example.org/" rel=x target=y>l</a><a href="http://e.x/">m</a><a href="/r">n</a><a>bare</a>`,
	`<img src="https://e.x/i.png"><img src="ftp://e.x/i"><img><object>o</object><b>b</b><i>i</i>`,
}

// behaviourDiff compares a used policy with a fresh one on the probes (and on the scenario inputs).
func behaviourDiff(used, fresh *bluemonday.Policy) string {
	base := len(hooks.SnapshotPolicy(fresh))
	for _, in := range append(append([]string{}, c13Probes...), c13Inputs...) {
		// a policy whose tables grow with every call is not probed further (it may grow without bound)
		if n := len(hooks.SnapshotPolicy(used)); n > 3*base+4096 {
			return fmt.Sprintf("the policy's object graph keeps growing with use (%d bytes rendered, %d when fresh)", n, base)
		}
		a, pa := San(used, in)
		b, pb := San(fresh, in)
		if a != b || pa != pb {
			return fmt.Sprintf("probe %s gives %s on the used policy and %s on a fresh one", run.Q(in), run.Q(a+pa), run.Q(b+pb))
		}
	}
	return ""
}

func firstSnapDiff(a, b string) string {
	i := 0
	for i < len(a) && i < len(b) && a[i] == b[i] {
		i++
	}
	lo := i - 120
	if lo < 0 {
		lo = 0
	}
	hi := func(s string) int {
		if i+120 < len(s) {
			return i + 120
		}
		return len(s)
	}
	return fmt.Sprintf("before: ...%s...  after: ...%s...", a[lo:hi(a)], b[lo:hi(b)])
}

type c13Case struct {
	Spec    *spec.Spec `json:"spec,omitempty"` // calls_per_goroutine == -3: sequential history x, y on this policy
	Inputs  []string   `json:"inputs"`
	Calls   int        `json:"calls_per_goroutine"`
	Sched   bool       `json:"scheduling"`
	MapMode bool       `json:"map_order"`
	Choices []int      `json:"choices"`
}

// yieldWriter is a destination without WriteString whose Write is a scheduling point taken before the bytes are
// copied (a real destination - pipe, socket, compressor - parks the goroutine exactly there).
type yieldWriter struct{ buf *bytes.Buffer }

func (w yieldWriter) Write(p []byte) (int, error) {
	hooks.Point(2000001)
	return w.buf.Write(p)
}

// c13Bodies: calls < 100: Sanitize, then calls-1 repeats through the other buffer-returning entry points;
// calls >= 100: one SanitizeReaderToWriter into a yieldWriter.
func c13Bodies(inputs []string, calls int) []func(p *bluemonday.Policy) string {
	var out []func(p *bluemonday.Policy) string
	for _, in := range inputs {
		in := in
		if calls >= 100 {
			out = append(out, func(p *bluemonday.Policy) string {
				var buf bytes.Buffer
				if err := p.SanitizeReaderToWriter(strings.NewReader(in), yieldWriter{&buf}); err != nil {
					return "ERROR: " + err.Error()
				}
				return buf.String()
			})
			continue
		}
		out = append(out, func(p *bluemonday.Policy) string {
			r := p.Sanitize(in)
			for k := 1; k < calls; k++ {
				var r2 string
				if k%2 == 1 {
					r2 = string(p.SanitizeBytes([]byte(in)))
				} else {
					r2 = p.SanitizeReader(strings.NewReader(in)).String()
				}
				if r2 != r {
					return "REPEATED-CALL-DIFFERS: " + run.Q(r) + " vs " + run.Q(r2)
				}
			}
			return r
		})
	}
	return out
}

// exploreC13 runs the bounded DFS. preBound / mapBound limit the total cost of 's' / 'm' deviations.
func exploreC13(c *run.Ctx, mk func() *bluemonday.Policy, inputs []string, calls int, sched, mapMode bool, preBound, mapBound int, seq []string, label string) {
	e := &explorer{mk: mk, bodies: c13Bodies(inputs, calls), schedOn: sched, mapMode: mapMode}
	diverged := false
	safeRun := func(prefix []int) (x *execution) {
		defer func() {
			if r := recover(); r != nil {
				// a replay that does not reproduce its parent's choice points: something outside the
				// scheduler's control changed between executions (package-level state). Not a verdict by
				// itself; the exploration stops and says so.
				diverged = true
				c.Cap(fmt.Sprintf("exploration %s stopped: %v", label, r))
				hooks.SetPoint(nil)
				hooks.SetMapOrder(nil)
				x = nil
			}
		}()
		return e.run(prefix)
	}
	check := func(x *execution) {
		c.Eval()
		c.Transitions++
		c.Traces++
		c.States += int64(len(x.points))
		nontriv := false
		for i, ch := range x.choices {
			if ch != 0 && x.points[i].cost > 0 {
				nontriv = true
			}
		}
		if nontriv {
			c.NontrivialN++
		}
		cs := c13Case{Inputs: inputs, Calls: calls, Sched: sched, MapMode: mapMode, Choices: append([]int{}, x.choices...)}
		for g := range inputs {
			if x.panics[g] != "" {
				c.Violate("panic|"+label, fmt.Sprintf("goroutine %d panicked under schedule %v: %s", g, compress(x.choices), x.panics[g]), cs)
				c.Outcome("violation|panic")
				return
			}
			if x.results[g] != seq[g] {
				kind := "schedule"
				if !sched {
					kind = "map-order"
				}
				c.Violate("result|"+kind+"|"+label, fmt.Sprintf("call %d returned %s, the sequential result is %s (input %s, choices %v)", g, run.Q(x.results[g]), run.Q(seq[g]), run.Q(inputs[g]), compress(x.choices)), cs)
				c.Outcome("violation|result")
				return
			}
		}
		if !x.snapOK {
			// The policy object (or a package-level variable) changed while sanitising. That is a violation when it
			// changes later behaviour; unsynchronised writes are the race detector's business; a synchronised,
			// behaviour-preserving cache is not forbidden by the property and is only noted.
			if d := behaviourDiff(e.p, e.mk()); d != "" {
				c.Violate("policy-mutated|"+label, "sanitising changed the policy's later behaviour: "+d+"; object graph: "+x.snapMsg, cs)
				c.Outcome("violation|mutated")
				return
			}
			c.Outcome("policy-object-changed-but-behaviour-unchanged")
			c.Notes["policy_object_changed_during_sanitising"] = x.snapMsg
		}
		c.Outcome(label + "|as-sequential")
	}
	// Work is distributed over the shards at the first deviation that costs something (a preemption
	// or a non-sorted map order). Free deviations above it (which goroutine starts, which one
	// continues after another finished) are followed by every shard; only shard 0 judges those
	// shared executions, so nothing is counted twice.
	var dfs func(prefix []int, usedPre, usedMap int, shared bool)
	topIndex := 0
	rootDone := false
	dfs = func(prefix []int, usedPre, usedMap int, shared bool) {
		if c.Expired() || diverged {
			return
		}
		x := safeRun(prefix)
		if x == nil {
			return
		}
		if !shared || c.Shard == 0 {
			check(x)
		}
		if !rootDone && c.Shard == 0 {
			rootDone = true
			// determinism: the same prefix must reproduce the same point trace
			y := safeRun(prefix)
			if y == nil || y.trace != x.trace || len(y.points) != len(x.points) {
				c.Cap("replaying the default schedule did not reproduce the same trace: scheduler does not own all nondeterminism")
			}
			if c.WantSample() {
				c.Sample(map[string]interface{}{"exploration": label, "inputs": inputs, "choice_points_in_default_execution": len(x.points), "preemption_bound": preBound, "map_deviation_bound": mapBound})
			}
		}
		points := x.points
		choices := x.choices
		for i := len(prefix); i < len(points); i++ {
			pt := points[i]
			np, nm := usedPre, usedMap
			if pt.kind == 's' {
				np += pt.cost
			} else {
				nm += pt.cost
			}
			if np > preBound || nm > mapBound {
				continue
			}
			for alt := 1; alt < pt.nalts; alt++ {
				childShared := shared && pt.cost == 0
				if shared && pt.cost > 0 {
					topIndex++
					if topIndex%c.NShards != c.Shard {
						continue
					}
				}
				child := append(append([]int{}, choices[:i]...), alt)
				dfs(child, np, nm, childShared)
			}
		}
	}
	dfs(nil, 0, 0, true)
}

func compress(ch []int) string {
	var parts []string
	for i, c := range ch {
		if c != 0 {
			parts = append(parts, fmt.Sprintf("%d:%d", i, c))
		}
	}
	return "[" + strings.Join(parts, " ") + "] of " + fmt.Sprint(len(ch))
}

// Other policies, used to check that calls on one policy never change what another policy does.
func c13OtherSpecs() []spec.Spec {
	return []spec.Spec{
		{Name: "c13-other-https-only", Base: "new", Calls: []C{attrsOn([]string{"href"}, "", "a"), attrsOn([]string{"src"}, "", "img"), {Op: "AllowURLSchemes", Names: []string{"https"}},
			{Op: "AllowElementsMatching", Re: `^zz-[a-z]+$`}, {Op: "AllowStyles", Names: []string{"color"}, Enum: []string{"green"}, Scope: "matching", OnRe: `^zz-[a-z]+$`}, attrsGlob([]string{"style"}, "")}},
		{Name: "ugc", Base: "ugc"},
	}
}

var c13CrossProbes = []string{
	`<a href="tel:123">t</a><a href="web+app:x">w</a><a href="https://e.x/">h</a><a href="http://example.org/">o</a><img src="tel:1">`,
	`<my-y id=b style="width: 7px; color: red">y</my-y><zz-a id=a style="color: green; width: 5px">z</zz-a><p style="color: red">p</p>`,
	`<img src="https://e.x/i.png"><a href="/rel" rel="x">r</a><b>b</b>`,
}

// c13WarmUp runs, sequentially, inputs that exercise every cache-worthy path of the shared policy.
var c13WarmUp = []string{
	`<a href="tel:123">t</a><a href="web+app:x">w</a><a href="http://example.org/">o</a><img src="tel:5">`,
	`<my-xy id=a name=7 title=t style="width: 5px; height: 1px; color: blue">t</my-xy><zz-a style="color: red">z</zz-a>`,
}

// crossPolicyDiff: reference vectors of the other policies first (pristine process), then the shared policy is
// used, then fresh instances of the other policies must still give the reference vectors.
func crossPolicyDiff(extra func(p *bluemonday.Policy)) string {
	others := c13OtherSpecs()
	refs := make([][]string, len(others))
	for i, s := range others {
		refs[i], _ = probeVector(spec.Build(s), c13CrossProbes)
	}
	shared := spec.Build(c13Spec())
	for _, in := range append(append([]string{}, c13WarmUp...), c13Inputs...) {
		San(shared, in)
	}
	if extra != nil {
		extra(shared)
	}
	for i, s := range others {
		now, _ := probeVector(spec.Build(s), c13CrossProbes)
		if j := firstDiff(refs[i], now); j >= 0 {
			return fmt.Sprintf("after calls on another policy, a fresh %s policy turns probe %s into %s instead of %s", s.Name, run.Q(c13CrossProbes[j]), run.Q(now[j]), run.Q(refs[i][j]))
		}
	}
	return ""
}

// ---- sequential histories: results do not depend on earlier calls -------------------------------------------

func c13SeqSpecs() []spec.Spec {
	out := []spec.Spec{c13Spec()}
	out = append(out, specsByName("ugc", "cmd-email", "styles", "media", "links", "attrs", "everything-named")...)
	out = append(out,
		// link options switched on, URL parsing switched off afterwards
		spec.Spec{Name: "c13-links-unparsed", Base: "new", Calls: []C{attrsOn([]string{"href", "rel", "target"}, "", "a", "area"), attrsOn([]string{"src"}, "", "img"),
			opt("RequireNoFollowOnLinks", true), opt("AddTargetBlankToFullyQualifiedLinks", true), opt("RequireParseableURLs", false)}},
		spec.Spec{Name: "c13-stdurls-unparsed", Base: "new", Calls: []C{attrsOn([]string{"href"}, "", "a"), {Op: "AllowStandardURLs"}, opt("RequireParseableURLs", false), opt("RequireNoReferrerOnLinks", true)}},
		spec.Spec{Name: "c13-relative-off", Base: "new", Calls: []C{attrsOn([]string{"href"}, "", "a"), {Op: "AllowURLSchemes", Names: []string{"https"}}, opt("AllowRelativeURLs", true), opt("AllowRelativeURLs", false)}},
		// shorthand properties whose default handlers split and recombine components
		spec.Spec{Name: "c13-css-shorthands", Base: "new", Calls: []C{els("p", "span"),
			{Op: "AllowStyles", Names: []string{"border", "background", "animation", "font", "transition", "margin", "padding", "outline", "columns", "flex", "list-style",
				"text-decoration", "border-radius", "border-top", "column-rule", "grid-area", "transform", "box-shadow", "text-shadow", "filter"}, Scope: "global"}}},
		// three global rules for one attribute (a slice with spare capacity) next to element rules for the same attribute
		spec.Spec{Name: "c13-global-attr-capacity", Base: "new", Calls: []C{els("span", "abbr", "b"),
			attrsGlob([]string{"title"}, "Paragraph"), attrsGlob([]string{"title"}, `^[a-z]+$`), attrsGlob([]string{"title"}, `^[0-9]+$`),
			attrsOn([]string{"title"}, `^x[0-9]$`, "span"), attrsOn([]string{"title"}, `^y[0-9]$`, "abbr"), attrsOn([]string{"title"}, "", "b")}},
		// style rules through two disjoint element patterns only (no global, no element-specific style rule)
		spec.Spec{Name: "c13-disjoint-style-patterns", Base: "new", Calls: []C{{Op: "AllowElementsMatching", Re: reMy}, {Op: "AllowElementsMatching", Re: `^zz-[a-z]+$`},
			{Op: "AllowStyles", Names: []string{"color"}, Scope: "matching", OnRe: reMy}, {Op: "AllowStyles", Names: []string{"width"}, Scope: "matching", OnRe: `^zz-[a-z]+$`},
			{Op: "AllowStyles", Names: []string{"height"}, Enum: []string{"1px"}, Scope: "matching", OnRe: `^qq-[a-z]+$`}, attrsGlob([]string{"style"}, "")}},
		spec.Spec{Name: "c13-iframe-crossorigin", Base: "new", Calls: []C{{Op: "AllowIFrames", Ints: []int{2, 10}}, attrsOn([]string{"src", "sandbox"}, "", "iframe"),
			attrsOn([]string{"src", "crossorigin"}, "", "img", "audio"), opt("RequireCrossOriginAnonymous", true), {Op: "AllowComments"}, opt("AddSpaceWhenStrippingTag", true)}},
	)
	return out
}

func c13SeqInputs() []string {
	in := append([]string{}, c13Inputs...)
	in = append(in, c13CrossProbes...)
	in = append(in, c13WarmUp...)
	in = append(in, c17Probes...)
	in = append(in,
		`<p style="border: 1px bogus">a</p>`, `<p style="border: 1px solid">b</p>`, `<p style="border: 1px solid red">c</p>`, `<p style="border: bogus">d</p>`,
		`<p style="background: red none">e</p>`, `<p style="background: red bogus repeat">f</p>`, `<p style="font: 12px arial">g</p>`, `<p style="font: bogus 12px/x arial">h</p>`,
		`<p style="animation: a 1s ease">i</p>`, `<p style="animation: 1s 2s 3s 4s bogus">j</p>`, `<p style="transition: all 1s">k</p>`, `<p style="margin: 1px 2px 3px 4px 5px">l</p>`,
		`<p style="margin: 1px 2px">m</p>`, `<span style="text-decoration: underline red">n</span>`, `<span style="text-decoration: bogus bogus">o</span>`, `<p style="list-style: square inside">p</p>`,
		`<p style="transform: rotate(1deg)">q</p>`, `<p style="transform: bogus(1)">r</p>`, `<p style="box-shadow: 1px 1px red">s</p>`, `<p style="outline: 1px bogus red; border-radius: 1px 2px">t</p>`,
		`<a href="javascript:alert(1)">j</a>`, `<a href=" http://e.x/ ">s</a>`, `<a href="HTTPS://E.X/p">u</a>`, `<a href="https://e.x/" rel="x" target="y">v</a>`, `<area href="//e.x/p">`,
		`<a href="%zz">bad escape</a>`, `<img src="javascript:x"><img src="https://e.x/i">`, `<iframe src="https://e.x/" sandbox="allow-forms allow-scripts x"></iframe>`,
		`<span title="x1">s</span><abbr title="y2">a</abbr><b title="any thing">b</b>`, `<span title="y2">s</span>`, `<abbr title="x1">a</abbr><span title="12">n</span>`,
		`<my-y style="color: red; width: 5px">m</my-y>`, `<zz-a style="width: 5px; color: red">z</zz-a>`,
		`<p>see <a>here</p>`, `</b></a>stray`, `<object><a>1</a></object><a href="/a">A</a>`, `<!-- c --><b>t`, ``, ` `,
	)
	return in
}

type pristineReq struct {
	Spec   spec.Spec `json:"spec"`
	Inputs []string  `json:"inputs"` // sanitised in this order on ONE fresh instance; the last result is returned
}
type pristineResp struct {
	Out   string `json:"out"`
	Panic string `json:"panic,omitempty"`
}

// Pristine is the body of `bmcheck pristine`: one policy, one input, first and only call of a fresh process.
func Pristine() int {
	var rq pristineReq
	if err := json.NewDecoder(os.Stdin).Decode(&rq); err != nil {
		return 2
	}
	p := spec.Build(rq.Spec)
	var rs pristineResp
	for _, in := range rq.Inputs {
		rs.Out, rs.Panic = San(p, in)
	}
	json.NewEncoder(os.Stdout).Encode(rs)
	return 0
}

// pristineResult asks a fresh process for the result of the last of a short series of calls on one fresh instance.
func pristineResult(s spec.Spec, in ...string) (pristineResp, error) {
	exe, err := os.Executable()
	if err != nil {
		return pristineResp{}, err
	}
	rq, _ := json.Marshal(pristineReq{s, in})
	cmd := exec.Command(exe, "pristine")
	cmd.Stdin = bytes.NewReader(rq)
	var so bytes.Buffer
	cmd.Stdout = &so
	if err := cmd.Run(); err != nil {
		return pristineResp{}, err
	}
	var rs pristineResp
	err = json.Unmarshal(so.Bytes(), &rs)
	return rs, err
}

// seqHistory: on every policy of the family, for every ordered pair (x, y) of inputs, a fresh instance that first
// sanitises x must then turn y into what a fresh instance turns it into; the references themselves are computed
// twice, in opposite orders, and must agree.
func seqHistory(c *run.Ctx) {
	ins := c13SeqInputs()
	searches := 0
	for _, s := range c13SeqSpecs() {
		s := s
		// this shard owns the columns y with yi % NShards == Shard; the reference for (policy, y) is the result of
		// the first and only call of a fresh process, so that state shared between instances cannot taint it
		for yi, y := range ins {
			if yi%c.NShards != c.Shard {
				continue
			}
			if c.Expired() {
				return
			}
			rs, err := pristineResult(s, y)
			if err != nil {
				c.Cap("pristine reference process failed: " + err.Error())
				return
			}
			c.Eval()
			if rs.Panic != "" {
				c.Violate("panic", "Sanitize panicked: "+rs.Panic, c13Case{Spec: &s, Inputs: []string{y, y}, Calls: -3})
				continue
			}
			for xi, x := range ins {
				p := spec.Build(s)
				_, pm1 := San(p, x)
				got, pm2 := San(p, y)
				c.Eval()
				c.Transitions++
				c.Traces++
				if xi != yi {
					c.NontrivialN++
				}
				if pm1 != "" || pm2 != "" {
					c.Violate("panic", "Sanitize panicked: "+pm1+pm2, c13Case{Spec: &s, Inputs: []string{x, y}, Calls: -3})
					continue
				}
				if got != rs.Out {
					c.Outcome("violation|history")
					if searches >= 3 {
						continue
					}
					searches++
					// The cause may be an earlier call of this process (state shared between instances): find the
					// shortest history that reproduces in a fresh process.
					wx, found := x, false
					if r2, err := pristineResult(s, x, y); err == nil && r2.Out != rs.Out {
						found = true
					} else {
						for _, x2 := range ins {
							if r3, err := pristineResult(s, x2, y); err == nil && r3.Out != rs.Out {
								wx, found = x2, true
								break
							}
						}
					}
					msg := fmt.Sprintf("policy %s: after sanitising %s the same policy turns %s into %s; the first call of a fresh process gives %s", s.Name, run.Q(wx), run.Q(y), run.Q(got), run.Q(rs.Out))
					if !found {
						msg += " (observed after a longer series of calls in one process; no single earlier call reproduces it)"
					}
					c.Violate("history|"+s.Name, msg, c13Case{Spec: &s, Inputs: []string{wx, y}, Calls: -3})
					continue
				}
				c.Outcome("history-independent")
			}
		}
	}
}

// replaySeqHistory runs in a fresh process: reference for y first, then x and y on one fresh instance.
func replaySeqHistory(x c13Case) (bool, string) {
	if x.Spec == nil || len(x.Inputs) != 2 {
		return false, "malformed case"
	}
	ref, _ := San(spec.Build(*x.Spec), x.Inputs[1])
	p := spec.Build(*x.Spec)
	_, pm1 := San(p, x.Inputs[0])
	got, pm2 := San(p, x.Inputs[1])
	if pm1 != "" || pm2 != "" {
		return true, "panic: " + pm1 + pm2
	}
	if got != ref {
		return true, fmt.Sprintf("after sanitising %s the policy turns %s into %s; a fresh instance in a fresh process gives %s", run.Q(x.Inputs[0]), run.Q(x.Inputs[1]), run.Q(got), run.Q(ref))
	}
	// state shared between instances: the same on a second fresh instance
	p2 := spec.Build(*x.Spec)
	if got2, _ := San(p2, x.Inputs[1]); got2 != ref {
		return true, fmt.Sprintf("after sanitising %s on another instance a fresh instance turns %s into %s instead of %s", run.Q(x.Inputs[0]), run.Q(x.Inputs[1]), run.Q(got2), run.Q(ref))
	}
	return false, "history replays with the fresh result"
}

func runC13(c *run.Ctx) {
	// first thing in this (fresh) process: calls on one policy do not change what other policies do
	if c.Shard == 0 {
		c.Eval()
		if d := crossPolicyDiff(nil); d != "" {
			c.Violate("cross-policy", "results depend on earlier calls on a different policy: "+d, c13Case{Inputs: c13WarmUp, Calls: -2})
			c.Outcome("violation|cross-policy")
		} else {
			c.Outcome("other-policies-unaffected")
		}
	}
	if !hooks.Available {
		c.Cap("binary built without the instrumentation overlay: no scheduling points; only the sequential determinism probe ran")
	}
	sp := c13Spec()
	mk := func() *bluemonday.Policy { return spec.Build(sp) }
	b := build(sp)
	// sequential reference results (unscheduled, sorted map order), each on a fresh policy
	seq := make([]string, len(c13Inputs))
	for i, in := range c13Inputs {
		seq[i], _ = San(mk(), in)
		for k := 0; k < 3; k++ {
			if again, _ := San(b.P, in); again != seq[i] {
				c.Violate("result|repeat", fmt.Sprintf("two sequential calls on the same input disagree: %s vs %s", run.Q(seq[i]), run.Q(again)), c13Case{Inputs: []string{in}})
			}
		}
	}
	seqHistory(c)
	// ---- free-running race-detector pass (separate binary built with -race) ----------
	if c.Shard == 0 {
		rb := os.Getenv("VERIF_RACE_BIN")
		if rb == "" {
			c.Cap("race-detector binary not provided (VERIF_RACE_BIN unset): data-race clause not checked in this run")
		} else {
			so, se, err := runRaceBinary(rb)
			c.Eval()
			if strings.Contains(se.String(), "DATA RACE") {
				c.Violate("data-race", "Go's race detector reports a data race between concurrent Sanitize calls on one finished policy:\n"+raceExcerpt(se.String()), c13Case{Inputs: c13Inputs, Calls: -1})
				c.Outcome("violation|data-race")
			} else if err != nil {
				c.Cap("race pass did not complete: " + err.Error())
			} else if strings.Contains(so.String(), "RACEBODY-MISMATCH") {
				c.Violate("result|free-running", "free-running concurrent calls returned a result different from the sequential one: "+firstLineOf(so.String(), "RACEBODY-MISMATCH"), c13Case{Inputs: c13Inputs, Calls: -1})
			} else {
				c.Outcome("race-detector|clean")
				c.Notes["race_pass"] = strings.TrimSpace(so.String())
			}
		}
	}
	if hooks.Available {
		// cheapest explorations first, so that a budget cut-off loses the least
		for i, in := range c13Inputs {
			exploreC13(c, mk, []string{in}, 1, false, true, 0, 2, []string{seq[i]}, fmt.Sprintf("maporder-input%d", i))
		}
		// map-iteration orders on a policy whose style rules come from disjoint element patterns only (which pattern the
		// map yields last must not matter)
		for _, ds := range c13SeqSpecs() {
			if ds.Name != "c13-disjoint-style-patterns" {
				continue
			}
			ds := ds
			dmk := func() *bluemonday.Policy { return spec.Build(ds) }
			for di, din := range []string{`<my-y style="color: red; width: 5px">m</my-y>`, `<zz-a style="width: 5px; color: red">z</zz-a><b style="color: red">b</b>`} {
				dseq, _ := San(dmk(), din)
				exploreC13(c, dmk, []string{din}, 1, false, true, 0, 2, []string{dseq}, fmt.Sprintf("maporder-disjoint-patterns%d", di))
			}
		}
		// property names that carry two stacked vendor prefixes (which prefix is tried first must not matter)
		{
			in := `<p style="-moz--webkit-color: red; -o--ms-width: 5px; color: blue">x</p>`
			pseq, _ := San(mk(), in)
			exploreC13(c, mk, []string{in}, 1, false, true, 0, 2, []string{pseq}, "maporder-stacked-prefixes")
		}
		// two very short documents, each with a differently named element that is removed for lack of attributes (the
		// closing-tag bookkeeping of one call must not meet the other's): every interleaving with <=2 preemptions
		{
			dropped := []string{`<a>x</a>`, `<my-y>y</my-y>u`}
			dseq := make([]string, len(dropped))
			for i, in := range dropped {
				dseq[i], _ = San(mk(), in)
			}
			exploreC13(c, mk, dropped, 1, true, false, 2, 0, dseq, "2g-dropped-elements-c2")
		}
		pairs := [][]int{{0, 1}, {0, 3}, {1, 2}, {2, 3}, {1, 3}, {0, 2}}
		for pi, pr := range pairs {
			ins := []string{c13Inputs[pr[0]], c13Inputs[pr[1]]}
			sq := []string{seq[pr[0]], seq[pr[1]]}
			exploreC13(c, mk, ins, 1, true, false, 1, 0, sq, fmt.Sprintf("2g-pair%d-c1", pi))
		}
		exploreC13(c, mk, []string{c13Inputs[0], c13Inputs[1]}, 1, true, true, 1, 1, []string{seq[0], seq[1]}, "2g-maporder-c1")
		// the streaming entry point into a destination whose Write parks the goroutine
		exploreC13(c, mk, []string{c13Inputs[0], c13Inputs[2]}, 101, true, false, 1, 0, []string{seq[0], seq[2]}, "2g-writer-c1")
		for pi, pr := range pairs {
			if c.Quick() && pi >= 1 {
				break // quick: one pair (and the two short documents above) at c<=2, the other pairs at c<=1
			}
			ins := []string{c13Inputs[pr[0]], c13Inputs[pr[1]]}
			sq := []string{seq[pr[0]], seq[pr[1]]}
			exploreC13(c, mk, ins, 1, true, false, 2, 0, sq, fmt.Sprintf("2g-pair%d-c2", pi))
		}
		if !c.Quick() {
			three := []string{c13Inputs[0], c13Inputs[1], c13Inputs[2]}
			tseq := []string{seq[0], seq[1], seq[2]}
			exploreC13(c, mk, three, 1, true, false, 1, 0, tseq, "3g-c1")
			// three preemptions on two very short inputs that still go through pattern matching and the style merge
			short := []string{`<my-y style="width: 7px">`, `<my-xy id=a style="height: 2px">`}
			sseq := make([]string, len(short))
			for i, in := range short {
				sseq[i], _ = San(mk(), in)
			}
			exploreC13(c, mk, short, 1, true, true, 1, 2, sseq, "2g-short-maporder-c1")
			exploreC13(c, mk, short, 1, true, false, 3, 0, sseq, "2g-short-c3")
			exploreC13(c, mk, []string{c13Inputs[0], c13Inputs[3]}, 2, true, false, 2, 0, []string{seq[0], seq[3]}, "2g-2calls-c2")
			exploreC13(c, mk, []string{c13Inputs[1], c13Inputs[2]}, 101, true, false, 2, 0, []string{seq[1], seq[2]}, "2g-writer-c2")
			exploreC13(c, mk, three, 1, true, false, 2, 0, tseq, "3g-c2") // largest, last: a budget cut-off ends here
		}
	}
}

// runRaceBinary runs the free-running stress body under the race detector, for at most 90 seconds.
func runRaceBinary(rb string) (so, se *bytes.Buffer, err error) {
	so, se = &bytes.Buffer{}, &bytes.Buffer{}
	cmd := exec.Command(rb, "racebody")
	cmd.Env = append(os.Environ(), "GORACE=halt_on_error=0 exitcode=0", "GOMAXPROCS=8")
	cmd.Stdout, cmd.Stderr = so, se
	if err = cmd.Start(); err != nil {
		return
	}
	done := make(chan error, 1)
	go func() { done <- cmd.Wait() }()
	select {
	case err = <-done:
	case <-time.After(90 * time.Second):
		cmd.Process.Kill()
		<-done
		err = fmt.Errorf("race pass stopped after 90 s")
	}
	return
}

func raceExcerpt(s string) string {
	i := strings.Index(s, "WARNING: DATA RACE")
	if i < 0 {
		return ""
	}
	ex := s[i:]
	if len(ex) > 1500 {
		ex = ex[:1500]
	}
	return ex
}

func firstLineOf(s, marker string) string {
	for _, l := range strings.Split(s, "\n") {
		if strings.Contains(l, marker) {
			return l
		}
	}
	return ""
}

// RaceBody is the free-running stress body executed by the -race build.
func RaceBody() int {
	b := build(c13Spec())
	// the sequential references come from a second policy object: the shared one meets its first calls concurrently,
	// so that anything a first call initialises or rewrites lazily is touched by several goroutines at once
	ref := build(c13Spec())
	seq := make([]string, len(c13Inputs))
	for i, in := range c13Inputs {
		seq[i] = ref.P.Sanitize(in)
	}
	var wg sync.WaitGroup
	start := make(chan struct{})
	var mu sync.Mutex
	mism := 0
	for g := 0; g < 4; g++ {
		wg.Add(1)
		go func(g int) {
			defer wg.Done()
			<-start
			for it := 0; it < 2000; it++ {
				// goroutines g and g+2 walk the inputs in step, so each input's first call on the shared policy is made twice at once
				i := (g%2 + it) % len(c13Inputs)
				var out string
				switch it % 4 {
				case 0:
					out = b.P.Sanitize(c13Inputs[i])
				case 1:
					out = string(b.P.SanitizeBytes([]byte(c13Inputs[i])))
				case 2:
					// a destination that offers nothing but Write
					var buf bytes.Buffer
					if err := b.P.SanitizeReaderToWriter(strings.NewReader(c13Inputs[i]), writeOnly{&buf}); err != nil {
						out = "ERROR: " + err.Error()
					} else {
						out = buf.String()
					}
				default:
					out = b.P.SanitizeReader(strings.NewReader(c13Inputs[i])).String()
				}
				if out != seq[i] {
					mu.Lock()
					if mism == 0 {
						fmt.Printf("RACEBODY-MISMATCH input=%q got=%q want=%q\n", c13Inputs[i], out, seq[i])
					}
					mism++
					mu.Unlock()
				}
			}
		}(g)
	}
	close(start)
	wg.Wait()
	// second phase: every policy of the sequential-history family, 4 goroutines each walking all of its inputs
	// (rotated starting points) three times over, results compared with the sequential ones
	ins := c13SeqInputs()
	calls2 := 0
	for _, s := range c13SeqSpecs() {
		p := spec.Build(s)
		ref := spec.Build(s)
		want := make([]string, len(ins))
		for i, in := range ins {
			want[i] = ref.Sanitize(in)
		}
		var wg2 sync.WaitGroup
		for g := 0; g < 4; g++ {
			wg2.Add(1)
			go func(g int) {
				defer wg2.Done()
				for round := 0; round < 3; round++ {
					for k := range ins {
						i := (k + g*len(ins)/4 + round) % len(ins)
						if out := p.Sanitize(ins[i]); out != want[i] {
							mu.Lock()
							if mism == 0 {
								fmt.Printf("RACEBODY-MISMATCH policy=%s input=%q got=%q want=%q\n", s.Name, ins[i], out, want[i])
							}
							mism++
							mu.Unlock()
						}
					}
				}
			}(g)
		}
		wg2.Wait()
		calls2 += 4 * 3 * len(ins)
	}
	fmt.Printf("racebody: 4 goroutines x 2000 iterations on the shared policy, then %d concurrent calls over %d policies, mismatches=%d\n", calls2, len(c13SeqSpecs()), mism)
	return 0
}

func replayC13(raw json.RawMessage) (bool, string) {
	var x c13Case
	json.Unmarshal(raw, &x)
	if x.Calls == -2 {
		d := crossPolicyDiff(nil)
		return d != "", d
	}
	if x.Calls == -3 {
		return replaySeqHistory(x)
	}
	if x.Calls < 0 {
		rb := os.Getenv("VERIF_RACE_BIN")
		if rb == "" {
			return false, "race-detector findings are replayed with the -race binary (VERIF_RACE_BIN; bin/check builds it)"
		}
		so, se, _ := runRaceBinary(rb)
		if strings.Contains(se.String(), "DATA RACE") {
			return true, "data race reported:\n" + raceExcerpt(se.String())
		}
		return strings.Contains(so.String(), "RACEBODY-MISMATCH"), "free-running results differ from sequential"
	}
	if !hooks.Available {
		return false, "needs the instrumented build"
	}
	sp := c13Spec()
	mk := func() *bluemonday.Policy { return spec.Build(sp) }
	seq := make([]string, len(x.Inputs))
	for i, in := range x.Inputs {
		seq[i], _ = San(mk(), in)
	}
	if x.Calls == 0 {
		x.Calls = 1
	}
	e := &explorer{mk: mk, bodies: c13Bodies(x.Inputs, x.Calls), schedOn: x.Sched, mapMode: x.MapMode}
	ex := e.run(x.Choices)
	for g := range x.Inputs {
		if ex.panics[g] != "" {
			return true, "panic: " + ex.panics[g]
		}
		if ex.results[g] != seq[g] {
			return true, fmt.Sprintf("call %d returned %s, sequential %s", g, run.Q(ex.results[g]), run.Q(seq[g]))
		}
	}
	if !ex.snapOK {
		if d := behaviourDiff(e.p, mk()); d != "" {
			return true, "policy mutated and later behaviour changed: " + d
		}
	}
	return false, "schedule replays with sequential results"
}
