package checks

import (
	"encoding/json"
	"fmt"
	"strconv"
	"strings"

	"golang.org/x/net/html"

	"verif/harness/internal/obs"
	"verif/harness/internal/run"
	"verif/harness/internal/spec"
)

// C05 — script and style never survive unless AllowUnsafe(true). (E1 part; the
// per-transition form over unbounded documents is part of the E2 search.)

func init() {
	register(&run.Check{
		ID:    "C05",
		Level: "model_checking",
		Rule: "bounded-exhaustive: every sequence of <=3 fragments over a 47-fragment alphabet of script/style forms (start, end, self-closing, upper/mixed case, with attributes, unterminated, NUL / slash / newline inside the tag, nested in svg/math/select/table/title/textarea/noscript/comments, look-alike non-ASCII names) with uniquely numbered text markers, <=4 over a 20-fragment core, " +
			"byte strings <=3 over B glued after the literal names, and script / style bodies of 64 KiB, 1 MiB + 1 and 3 MiB with markup and markers at their end, 15 ... 4096 open attribute-less elements before a script with a body, script / style tags with 1 ... 5000 attributes, comment bodies with entity-encoded terminators under comment-allowing policies; crossed with policies without AllowUnsafe that name script/style explicitly, match them with patterns, give them attributes or AllowNoAttrs, or un-skip their content. " +
			"Oracle: no script/style tag in the re-tokenised or re-parsed output, and no text marker that x/net's tree builder places inside a script/style element of the input appears in the output; second oracle: when the document's first tag is a script start tag, no marker inside that element as an independent transcription of the HTML standard's script-data states (escaped, double-escaped) delimits it appears either (script bodies <=4, thorough 6, over 14 fragments that move between those states). " +
			"non-trivial = the input contains a script or style element according to the tree builder.",
		Assumptions: []string{"'inside a script/style element' is decided by html.ParseFragment on the input in body and div context (what a browser would execute / apply)"},
		QuickBudget: 50, ThoroughBudget: 800,
		Run:    runC05,
		Replay: replayC05,
	})
}

func c05Specs() []built {
	all := `.*`
	ss := []spec.Spec{
		{Name: "c05-named", Base: "new", Calls: []C{els("script", "style", "b", "p", "svg", "math", "select", "table", "title")}},
		{Name: "c05-pattern-all", Base: "new", Calls: []C{{Op: "AllowElementsMatching", Re: all}, {Op: "AllowNoAttrs", Scope: "matching", OnRe: all}}},
		{Name: "c05-attrs", Base: "new", Calls: []C{
			{Op: "AllowNoAttrs", Scope: "on", On: []string{"script", "style"}},
			attrsOn([]string{"type", "src", "media"}, "", "script", "style"), els("b")}},
		{Name: "c05-unskip", Base: "new", Calls: []C{els("script", "style", "b", "p"), {Op: "AllowElementsContent", Names: []string{"script", "style"}}}},
		{Name: "c05-pattern-unskip", Base: "new", Calls: []C{
			{Op: "AllowElementsMatching", Re: all}, {Op: "AllowNoAttrs", Scope: "matching", OnRe: all}, attrsGlob([]string{"id", "src", "type"}, ""),
			{Op: "AllowElementsContent", Names: []string{"script", "style", "SCRIPT"}}, {Op: "AllowComments"}}},
		{Name: "c05-pattern-s", Base: "new", Calls: []C{{Op: "AllowElementsMatching", Re: `^s`}, attrsPat([]string{"src"}, "", `^s`), {Op: "AllowNoAttrs", Scope: "matching", OnRe: `^s`},
			opt("AddSpaceWhenStrippingTag", true)}},
		{Name: "c05-unsafe-toggled-off", Base: "new", Calls: []C{opt("AllowUnsafe", true), els("script", "style", "b"), opt("AllowUnsafe", false)}},
		{Name: "c05-named-comments", Base: "new", Calls: []C{els("script", "style", "b", "p"), {Op: "AllowComments"}}},
		specByName("ugc"), specByName("strict"), specByName("cmd-email"),
	}
	return buildAll(ss)
}

var c05Frags = []string{
	"@", "<script>", "</script>", "<style>", "</style>", "<script/>", "<style/>", "<SCRIPT>", "</SCRIPT>", "<b>", "</b>",
	"<svg>", "</svg>", "<math>", "<p>", "<sCrIpT src=x>", "<script type=\"text/javascript\">", "<style media=all>", "<!--", "-->",
	"--&gt;", // an entity-encoded comment terminator (comment data is entity-decoded by the tokenizer)
	// beyond the core:
	"<scrİpt>", "<script", "<script ", "</script", "<title>", "</title>", "<textarea>", "<noscript>", "<select>", "<table>", "<x>", "</x>",
	"<script\x00>", "<script/ >", "</script >", "</style foo>", "<style\n>", "<iframe>", "</iframe>", "<mtext>", "<desc>", "<foreignobject>",
	"<annotation-xml>", "<STYLE/>", "<script/src=x>", "<ſcript>", "<style></style>", "<![CDATA[", "<![CDATA[>", "]]>",
}

const c05CoreN = 20

// c05ScriptBodyFrags: what moves the standard's tokenizer between its script-data states.
var c05ScriptBodyFrags = []string{"<!--", "-->", "<script>", "</script>", "<0", "<!", "<", "-", "@", "<script ", "</script ", "<scriptx>", "--!>", "</x>"}

// numberMarkers replaces each '@' by a unique marker m<i>.
func numberMarkers(in []byte) string {
	var b strings.Builder
	n := 0
	for _, ch := range in {
		if ch == '@' {
			b.WriteString("qz")
			b.WriteString(strconv.Itoa(n))
			b.WriteString("zq")
			n++
		} else {
			b.WriteByte(ch)
		}
	}
	return b.String()
}

// markersInsideScriptStyle returns the markers the tree builder places inside
// script/style elements of the input, and whether any such element exists.
func markersInsideScriptStyle(in string) (inside []string, hasEl bool) {
	seen := map[string]bool{}
	for _, ctx := range []string{"body", "div"} {
		obs.Walk(obs.DOM(in, ctx), func(n *html.Node) {
			if n.Type == html.ElementNode {
				l := obs.ASCIILower(n.Data)
				if l == "script" || l == "style" {
					hasEl = true
				}
			}
			if n.Type == html.TextNode && obs.HasAncestor(n, "script", "style") {
				s := n.Data
				for {
					i := strings.Index(s, "qz")
					if i < 0 {
						break
					}
					j := strings.Index(s[i:], "zq")
					if j < 0 {
						break
					}
					m := s[i : i+j+2]
					if !seen[m] {
						seen[m] = true
						inside = append(inside, m)
					}
					s = s[i+j+2:]
				}
			}
		})
	}
	return
}

// insidePerTokenizer: in the token stream of the context-free tokenizer, is the marker part of the text that
// follows a script/style start (or self-closing) tag and precedes its end tag?
func insidePerTokenizer(in, marker string) bool {
	open := ""
	for _, t := range obs.Retok(in) {
		switch t.Type {
		case html.StartTagToken, html.SelfClosingTagToken:
			if t.Name == "script" || t.Name == "style" {
				open = t.Name
			} else {
				open = ""
			}
		case html.EndTagToken:
			if t.Name == open {
				open = ""
			}
		case html.TextToken:
			if open != "" && strings.Contains(t.Data, marker) {
				return true
			}
		}
	}
	return false
}

// inRawTextPerTokenizer: in the context-free tokenizer's view, is the marker part of the text that follows the start
// tag of an RCDATA / raw-text element other than script and style (title, textarea, xmp, ...)?
func inRawTextPerTokenizer(in, marker string) bool {
	open := ""
	for _, t := range obs.Retok(in) {
		switch t.Type {
		case html.StartTagToken:
			switch t.Name {
			case "title", "textarea", "xmp", "iframe", "noembed", "noframes", "noscript", "plaintext":
				open = t.Name
			default:
				open = ""
			}
		case html.EndTagToken, html.SelfClosingTagToken:
			open = ""
		case html.TextToken:
			if open != "" && strings.Contains(t.Data, marker) {
				return true
			}
		}
	}
	return false
}

// markersInForeignScriptStyle: markers inside a script/style element that itself has an svg or math ancestor.
func markersInForeignScriptStyle(in string) map[string]bool {
	return markersInScriptStyleUnder(in, "svg", "math")
}

// markersInScriptStyleUnder: markers inside a script/style element that itself has one of the named ancestors.
func markersInScriptStyleUnder(in string, anc ...string) map[string]bool {
	out := map[string]bool{}
	for _, ctx := range []string{"body", "div"} {
		obs.Walk(obs.DOM(in, ctx), func(n *html.Node) {
			if n.Type != html.TextNode || !obs.HasAncestor(n, "script", "style") || !obs.HasAncestor(n, anc...) {
				return
			}
			s := n.Data
			for {
				i := strings.Index(s, "qz")
				if i < 0 {
					break
				}
				j := strings.Index(s[i:], "zq")
				if j < 0 {
					break
				}
				out[s[i:i+j+2]] = true
				s = s[i+j+2:]
			}
		})
	}
	return out
}

func judgeC05(v *spec.View, in, out string) (sig, what string, nontrivial bool) {
	for _, t := range obs.Retok(out) {
		switch t.Type {
		case html.StartTagToken, html.EndTagToken, html.SelfClosingTagToken:
			if t.Name == "script" || t.Name == "style" {
				return "tag|" + t.Name, "output contains a <" + t.Name + "> tag", true
			}
		}
	}
	for _, ctx := range obs.FlowContexts {
		obs.Walk(obs.DOM(out, ctx), func(n *html.Node) {
			if n.Type == html.ElementNode && sig == "" {
				l := obs.ASCIILower(n.Data)
				if l == "script" || l == "style" {
					sig, what = "dom|"+l, "output parses ("+ctx+") to a <"+l+"> element"
				}
			}
		})
		if sig != "" {
			return sig, what, true
		}
	}
	inside, hasEl := markersInsideScriptStyle(in)
	foreignMarkers := markersInForeignScriptStyle(in)
	var selectMarkers map[string]bool
	for _, m := range inside {
		if strings.Contains(out, m) {
			// Classify by the two views of the input. The sanitiser works on x/net's context-free tokenizer: if,
			// in that view too, the marker lies in the raw text of a script/style tag the sanitiser saw, the plain
			// signature stands. If only the tree builder places it inside script/style and the element sits in
			// foreign content (svg/math, where the tree builder switches raw-text handling off and the tokenizer
			// does not), it is the known tokenizer differential.
			sig := "body-text"
			if !insidePerTokenizer(in, m) {
				if selectMarkers == nil {
					selectMarkers = markersInScriptStyleUnder(in, "select")
				}
				if foreignMarkers[m] {
					sig = "body-text|foreign-content-tokenizer-differential"
				} else if selectMarkers[m] && inRawTextPerTokenizer(in, m) {
					// the other place where the tree builder switches raw-text handling off: inside select the
					// start tags of title/textarea/xmp/... are ignored and the tokenizer is told so
					sig = "body-text|select-rawtext-tokenizer-differential"
				} else {
					sig = "body-text|tree-builder-only"
				}
			}
			return sig, "text " + m + " from inside a script/style element of the input appears in the output", true
		}
	}
	// the same question under the other setting of the scripting flag: a browser with scripting disabled parses the
	// content of noscript as markup, the tokenizer the sanitiser uses always reads it as raw text
	for m := range markersInScriptStyleScriptingOff(in) {
		if strings.Contains(out, m) {
			return "body-text|noscript-scripting-off-tokenizer-differential", "text " + m + " from inside a script/style element within noscript (as a browser with scripting disabled parses it) appears in the output", true
		}
	}
	// the same question put to an independent transcription of the standard's script-data states (x/net's tokenizer,
	// which both the sanitiser and the tree builder above use, leaves the "<!--" escaped state too early)
	if body, ok := whatwgScriptBody(in); ok {
		for _, m := range markersIn(body) {
			if strings.Contains(out, m) {
				sig := "body-text|standard-tokenizer-only"
				if strings.Contains(body, "<!--") {
					sig = "body-text|script-escaped-state-tokenizer-differential"
				}
				return sig, "text " + m + " from inside the script element of the input (as the HTML standard's tokenizer delimits it) appears in the output", true
			}
		}
	}
	return "", "", hasEl
}

func runC05(c *run.Ctx) {
	bs := c05Specs()
	eval := func(in string) {
		c.States++
		for i := range bs {
			b := &bs[i]
			c.Trace(func() string { return b.S.String() + "\n" + run.Q(in) })
			out, pm := San(b.P, in)
			c.Eval()
			c.Transitions++
			c.Traces++
			if pm != "" {
				c.Violate("panic", "Sanitize panicked: "+pm, mkCase(b.S, []byte(in)))
				continue
			}
			sig, what, nt := judgeC05(b.V, in, out)
			if nt {
				c.Nontrivial([]byte(b.S.Name), []byte(in))
			}
			if sig != "" {
				c.Violate(sig, fmt.Sprintf("%s; policy=%s input=%s output=%s", what, b.S.Name, run.Q(in), run.Q(out)), mkCase(b.S, []byte(in)))
				c.Outcome("violation|" + sig)
				continue
			}
			switch {
			case !nt:
				c.Outcome("no-script-style-element-in-input")
			case out == "":
				c.Outcome("script-style-removed|output-empty")
			default:
				c.Outcome("script-style-removed|rest-kept")
				if c.WantSample() && len(in) > 24 {
					c.Sample(map[string]string{"policy": b.S.Name, "input": in, "output": out})
				}
			}
		}
	}
	k := 3
	SeqsS(c, "c05", c05Frags, 0, k, func(in []byte, _ []int) { eval(numberMarkers(in)) })
	kc := 4
	if !c.Quick() {
		kc = 5
	}
	SeqsS(c, "c05", c05Frags[:c05CoreN], 4, kc, func(in []byte, _ []int) { eval(numberMarkers(in)) })
	if !c.Quick() {
		SeqsS(c, "c05", c05Frags, 4, 4, func(in []byte, idx []int) {
			// at depth 4 over the full alphabet: sequences that contain at least one script/style form
			s := string(in)
			l := strings.ToLower(s)
			if strings.Contains(l, "script") || strings.Contains(l, "style") {
				eval(numberMarkers(in))
			}
		})
	}
	// foreign content x RCDATA / raw-text element x script/style form: where tokenizer and tree builder disagree
	for _, f := range []string{"<svg>", "<math>", "<svg><desc>", "<math><mtext>", "<svg><foreignobject>", "<math><annotation-xml>"} {
		for _, r := range []string{"<textarea>", "<title>", "<xmp>", "<iframe>", "<noscript>", "<plaintext>", "<noembed>", "<noframes>", "<select>", "<table>", "<!--"} {
			for _, s := range []string{"<script>", "<style>", "<script/>", "<style/>", "<SCRIPT>", "<style\n>", "<script src=x>", "<style media=all>"} {
				for _, tail := range []string{"@", "@</style>@", "@</script></textarea>@"} {
					doc := f + r + s + tail
					if c.Own([]byte("c05foreign"), []byte(doc)) {
						eval(numberMarkers([]byte(doc)))
					}
				}
			}
		}
	}
	// size layer: a script / style body of 64 KiB ... 3 MiB followed (still inside the element) by markup and a marker;
	// whatever the tokenizer or the sanitiser does at a buffer boundary, the tail of the body must not come out
	evalOn := func(names []string, in string) {
		saved := bs
		bs = pick(saved, names...)
		eval(in)
		bs = saved
	}
	for _, n := range []int{1 << 16, 1<<20 + 1, 3 << 20} {
		for _, el := range []string{"script", "style"} {
			doc := "<b>a</b><" + el + ">" + strings.Repeat("x ", n/2) + "<b>@</b><i>@</i>@</" + el + "><i>z</i>"
			if c.Own([]byte("c05size"), []byte(fmt.Sprint(n, el))) {
				evalOn([]string{"ugc", "c05-named", "c05-unskip"}, numberMarkers([]byte(doc)))
			}
		}
	}
	// many open elements removed for lack of attributes before the script (a depth limit must not let the body through)
	for _, n := range []int{15, 16, 255, 256, 511, 512, 513, 4096} {
		doc := strings.Repeat("<a>", n) + "<script><b>@</b>@</script>" + strings.Repeat("</a>", n) + "<i>z</i>"
		if c.Own([]byte("c05depth"), []byte(fmt.Sprint(n))) {
			evalOn([]string{"ugc", "c05-named", "strict"}, numberMarkers([]byte(doc)))
		}
	}
	// many attributes on the script / style tag itself (an attribute-count limit must not let the body through)
	for _, n := range []int{1, 16, 255, 256, 257, 1000, 5000} {
		for _, el := range []string{"script", "style", "SCRIPT"} {
			var sb strings.Builder
			sb.WriteString("<b>a</b><" + el)
			for i := 0; i < n; i++ {
				fmt.Fprintf(&sb, " a%d=v", i)
			}
			sb.WriteString("><b>@</b>@</" + el + "><i>z</i>")
			if c.Own([]byte("c05attrs"), []byte(fmt.Sprint(n, el))) {
				evalOn([]string{"ugc", "c05-named", "c05-unskip", "strict"}, numberMarkers([]byte(sb.String())))
			}
		}
	}
	// script bodies that enter the escaped and double-escaped states of the standard's tokenizer
	ke := 4
	if !c.Quick() {
		ke = 6
	}
	SeqsS(c, "c05esc", c05ScriptBodyFrags, 0, ke, func(body []byte, _ []int) {
		evalOn([]string{"ugc", "strict", "c05-named"}, numberMarkers([]byte("@<script>"+string(body)+"</script>@</script><b>@</b>")))
	})
	// byte-level forms glued to the literal names
	nb := 3
	if !c.Quick() {
		nb = 4
	}
	for _, pre := range []string{"<script", "<style", "</script", "<script/", "<sc", "<STYLE"} {
		for _, suf := range []string{">@</script>@", "@"} {
			BytesS(c, "c05b"+pre+suf, byteAlpha, 0, nb, func(mid []byte) {
				eval(numberMarkers([]byte(pre + string(mid) + suf)))
			})
		}
	}
	if c.Shard == 0 {
		c.Notes["policies"] = float64(len(bs))
		c.Notes["alphabet"] = float64(len(c05Frags))
	}
}

func replayC05(raw json.RawMessage) (bool, string) {
	cs, in := parseCase(raw)
	b := build(cs.Spec)
	out, pm := San(b.P, string(in))
	if pm != "" {
		return true, "panic: " + pm
	}
	sig, what, _ := judgeC05(b.V, string(in), out)
	return sig != "", what + " output=" + run.Q(out)
}
