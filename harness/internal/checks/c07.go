package checks

import (
	"encoding/json"
	"fmt"
	"sort"
	"strings"

	"golang.org/x/net/html"

	"verif/harness/internal/obs"
	"verif/harness/internal/run"
	"verif/harness/internal/spec"
)

// C07 — conforming content passes through unchanged (rules are additive).

func init() {
	register(&run.Check{
		ID:    "C07",
		Level: "model_checking",
		Rule: "bounded-exhaustive: a generated slice of policies = every unordered pair (thorough: triple) of attribute rules over {element / explicit-element-shadowing-a-pattern / two overlapping element patterns / global} x {no pattern, letters, digits} for one attribute, plus named policies (UGC, cmd policies, links, media with rewriter, foreign, patterns); " +
			"for every policy, every document its own vocabulary generates: each allowed element (names and pattern witnesses) x each subset of <=2 (thorough 3) applicable attributes x each witness value (values matching exactly one of the overlapping patterns and values matching several) x nesting depth <=2, in canonical serialisation; style attributes made of one or two conforming declarations (every matcher kind, mixed-case spellings); and documents with one token of 1 KiB ... 4 MiB (text run, attribute value, data: URI). " +
			"Oracle: Sanitize(doc) == doc byte for byte after deleting, from both sides, attributes the policy instructs the sanitiser to add or rewrite. non-trivial = the document carries at least one attribute." +
			" Round 10: a vendor-prefixed rule and a plain rule for one property in one table; declarations under the prefixed name are witnessed with the values only the plain rule accepts.",
		Assumptions: []string{
			"for an element allowed by name, documents use element and global rules only (README: explicit name => patterns ignored), so precedence is never relied on",
			"witness values per registered pattern are listed in internal/checks/conform.go; a witness the live pattern rejects is skipped (C19 judges the patterns)",
		},
		QuickBudget: 50, ThoroughBudget: 800,
		Run:    runC07,
		Replay: replayC07,
	})
}

type ruleShape struct {
	scope string // on-span | on-myx | pat-my | pat-myx | global
	re    string
}

func (r ruleShape) call(attr string) C {
	switch r.scope {
	case "on-span":
		return attrsOn([]string{attr}, r.re, "span")
	case "on-myx":
		return attrsOn([]string{attr}, r.re, "my-x")
	case "pat-my":
		return attrsPat([]string{attr}, r.re, reMy)
	case "pat-myx":
		return attrsPat([]string{attr}, r.re, reMyX)
	}
	return attrsGlob([]string{attr}, r.re)
}

func c07Specs(c *run.Ctx) []built {
	var shapes []ruleShape
	for _, sc := range []string{"on-span", "on-myx", "pat-my", "pat-myx", "global"} {
		for _, re := range []string{"", `^[a-z]+$`, `^[0-9]+$`} {
			shapes = append(shapes, ruleShape{sc, re})
		}
	}
	base := []C{els("span", "b"), {Op: "AllowElementsMatching", Re: reMy}, {Op: "AllowNoAttrs", Scope: "matching", OnRe: reMy}}
	var out []spec.Spec
	n := 0
	for i := range shapes {
		for j := i; j < len(shapes); j++ {
			calls := append(append([]C{}, base...), shapes[i].call("id"), shapes[j].call("id"))
			out = append(out, spec.Spec{Name: fmt.Sprintf("c07-pair-%d", n), Base: "new", Calls: calls})
			n++
			if !c.Quick() {
				for k := j; k < len(shapes); k += 2 {
					calls3 := append(append([]C{}, calls...), shapes[k].call("id"), attrsGlob([]string{"title"}, "Paragraph"))
					out = append(out, spec.Spec{Name: fmt.Sprintf("c07-triple-%d", n), Base: "new", Calls: calls3})
					n++
				}
			}
		}
	}
	// element reachable by name, by one pattern, by two; with and without AllowNoAttrs
	out = append(out,
		spec.Spec{Name: "c07-reach-name", Base: "new", Calls: []C{els("my-x", "span"), attrsGlob([]string{"id"}, "")}},
		spec.Spec{Name: "c07-reach-one-pattern", Base: "new", Calls: []C{attrsPat([]string{"id"}, "", reMy)}},
		spec.Spec{Name: "c07-reach-two-patterns", Base: "new", Calls: []C{attrsPat([]string{"id"}, `^[a-z]+$`, reMy), attrsPat([]string{"name"}, "", reMyX), {Op: "AllowNoAttrs", Scope: "matching", OnRe: reMyX}}},
		spec.Spec{Name: "c07-url", Base: "new", Calls: []C{attrsOn([]string{"href", "title"}, "", "a"), attrsOn([]string{"src", "alt"}, "", "img"), attrsOn([]string{"cite"}, "", "q", "blockquote"),
			{Op: "AllowURLSchemes", Names: []string{"http", "ftp"}}, opt("AllowRelativeURLs", true)}},
	)
	out = append(out,
		spec.Spec{Name: "c07-two-bare-patterns", Base: "new", Calls: []C{{Op: "AllowNoAttrs", Scope: "matching", OnRe: `^ui-[a-z]+$`}, {Op: "AllowNoAttrs", Scope: "matching", OnRe: reMyX},
			{Op: "AllowNoAttrs", Scope: "matching", OnRe: `^zz-`}, attrsPat([]string{"id"}, "", reMy)}},
		spec.Spec{Name: "c07-spaces-patterns", Base: "new", Calls: []C{opt("AddSpaceWhenStrippingTag", true), {Op: "AllowNoAttrs", Scope: "matching", OnRe: reMy}, attrsPat([]string{"id"}, `^[a-z]+$`, reMy),
			els("b", "span"), attrsGlob([]string{"title"}, "")}},
		spec.Spec{Name: "c07-spaces-ugc", Base: "ugc", Calls: []C{opt("AddSpaceWhenStrippingTag", true)}},
		spec.Spec{Name: "c07-bare-after-rules", Base: "new", Calls: []C{attrsOn([]string{"id"}, "", "a", "span"), attrsOn([]string{"title"}, "Paragraph", "a"), attrsPat([]string{"id"}, "", reMy),
			{Op: "AllowNoAttrs", Scope: "on", On: []string{"a", "span"}}, {Op: "AllowNoAttrs", Scope: "matching", OnRe: reMy}, els("a", "span")}},
		spec.Spec{Name: "c07-bare-builder-after-rules", Base: "new", Calls: []C{attrsOn([]string{"id"}, `^[a-z]+$`, "a"), {Op: "AllowAttrs", Names: []string{"title"}, NoAttrs: true, Scope: "on", On: []string{"a"}}}},
		spec.Spec{Name: "c07-url-widened", Base: "new", Calls: []C{attrsOn([]string{"href"}, "", "a"), attrsOn([]string{"src"}, "", "img"),
			{Op: "AllowURLSchemeWithCustomPolicy", Names: []string{"http"}, Fn: "never"}, {Op: "AllowURLSchemeWithCustomPolicy", Names: []string{"ftp"}, Fn: "never"},
			{Op: "AllowURLSchemes", Names: []string{"HTTP", "ftp"}}}},
		spec.Spec{Name: "c07-url-two-checks", Base: "new", Calls: []C{attrsOn([]string{"href"}, "", "a"),
			{Op: "AllowURLSchemeWithCustomPolicy", Names: []string{"http"}, Fn: "never"}, {Op: "AllowURLSchemeWithCustomPolicy", Names: []string{"http"}, Fn: "always"}}},
	)
	out = append(out, specsByName("ugc", "cmd-ugc", "cmd-email", "links", "media", "attrs", "pattern", "pattern-bare", "foreign", "bpbr", "skipmod", "styles", "rare-builder-forms", "pattern-std-names", "literal-options-first")...)
	// style rules in every scope and with every kind of matcher, names and enum entries spelled in mixed case
	out = append(out,
		spec.Spec{Name: "c07-styles-mixed-case", Base: "new", Calls: []C{els("p", "span"), {Op: "AllowElementsMatching", Re: reMy},
			{Op: "AllowStyles", Names: []string{"Color", "FONT-family"}, Enum: []string{"Red", "GREEN", "Arial"}, Scope: "global"},
			{Op: "AllowStyles", Names: []string{"WIDTH"}, Enum: []string{"1PX"}, Scope: "on", On: []string{"P"}},
			{Op: "AllowStyles", Names: []string{"text-align"}, Scope: "matching", OnRe: reMy},
			{Op: "AllowStyles", Names: []string{"color"}, Handler: "is-green", Scope: "matching", OnRe: reMyX}}},
		spec.Spec{Name: "c07-style-attr-vs-style-rules", Base: "new", Calls: []C{els("p", "span", "b"), attrsOn([]string{"style", "title"}, "", "p", "b"),
			{Op: "AllowStyles", Names: []string{"color"}, Scope: "on", On: []string{"span"}},
			{Op: "AllowStyles", Names: []string{"width"}, Enum: []string{"1px"}, Scope: "matching", OnRe: reMy}, {Op: "AllowElementsMatching", Re: reMy}}},
		// rules registered under names that carry a vendor prefix themselves
		spec.Spec{Name: "c07-prefixed-style-rule", Base: "new", Calls: []C{els("p", "span"), {Op: "AllowElementsMatching", Re: reMy},
			{Op: "AllowStyles", Names: []string{"-webkit-box-shadow", "mso-color"}, Enum: []string{"none", "red"}, Scope: "on", On: []string{"p"}},
			{Op: "AllowStyles", Names: []string{"-moz-box-shadow"}, Enum: []string{"none"}, Scope: "global"},
			{Op: "AllowStyles", Names: []string{"box-shadow"}, Enum: []string{"inherit", "unset"}, Scope: "on", On: []string{"p"}},
			{Op: "AllowStyles", Names: []string{"box-shadow"}, Enum: []string{"initial"}, Scope: "global"},
			{Op: "AllowStyles", Names: []string{"-webkit-line-clamp"}, Enum: []string{"3"}, Scope: "matching", OnRe: reMy}}},
		// custom matchers bound through an element pattern whose accepted values no default handler accepts
		spec.Spec{Name: "c07-style-pattern-custom-values", Base: "new", Calls: []C{els("p"), {Op: "AllowElementsMatching", Re: reMy},
			{Op: "AllowStyles", Names: []string{"color"}, Enum: []string{"brandcolor", "var(--brand)"}, Scope: "matching", OnRe: reMy},
			{Op: "AllowStyles", Names: []string{"accent-color"}, Enum: []string{"teal"}, Scope: "matching", OnRe: reMy},
			{Op: "AllowStyles", Names: []string{"width"}, Handler: "alpha-only", Scope: "matching", OnRe: reMy},
			{Op: "AllowStyles", Names: []string{"color"}, Enum: []string{"brandcolor"}, Scope: "on", On: []string{"p"}}}},
		spec.Spec{Name: "c07-unsafe-script-style", Base: "new", Calls: []C{opt("AllowUnsafe", true), els("script", "style", "p"), attrsOn([]string{"type"}, "", "script", "style")}},
		spec.Spec{Name: "c07-styles-overlap", Base: "new", Calls: []C{els("p", "span"),
			{Op: "AllowStyles", Names: []string{"color"}, Handler: "is-red", Scope: "global"},
			{Op: "AllowStyles", Names: []string{"color"}, Enum: []string{"blue"}, Scope: "on", On: []string{"p"}},
			{Op: "AllowStyles", Names: []string{"color"}, Re: `^(red|green)$`, Scope: "on", On: []string{"p"}},
			{Op: "AllowStyles", Names: []string{"width", "text-align", "font-family"}, Scope: "on", On: []string{"span"}},
			attrsGlob([]string{"style", "id"}, "")}},
	)
	return buildAll(out)
}

// styleWitnesses lists conforming declarations ("prop: value") for el: every value some registered matcher of the
// property accepts, kept only if the documented precedence (C10's completeness model) keeps it as it stands.
func styleWitnesses(v *spec.View, el string) []string {
	if !v.StyleGoverned(el) {
		return nil
	}
	defaults := map[string][]string{"color": {"red", "#00ff00"}, "text-align": {"center"}, "width": {"1px"}, "font-family": {"arial"}, "background": {"red"}}
	props := map[string]bool{}
	for p := range v.ElemStyle[el] {
		props[p] = true
	}
	for _, ps := range v.PatStyle {
		if ps.Re.MatchString(el) {
			for p := range ps.Styles {
				props[p] = true
			}
		}
	}
	for p := range v.GlobStyle {
		props[p] = true
	}
	var names []string
	for p := range props {
		names = append(names, p)
	}
	sort.Strings(names)
	var out []string
	seen := map[string]bool{}
	for _, prop := range names {
		var cands []string
		rules := v.StyleRules(el, prop)
		if plain := dePrefix(prop); plain != prop {
			// a declaration under a vendor-prefixed name is also governed by the rules for the plain name
			rules = append(append([]spec.StyleRule{}, rules...), v.StyleRules(el, plain)...)
		}
		for _, r := range rules {
			switch {
			case r.Handler != nil:
				cands = append(cands, "red", "green", "abc")
			case len(r.Enum) > 0:
				cands = append(cands, r.Enum...)
			case r.Re != nil:
				cands = append(cands, witnesses[r.Re.String()]...)
				cands = append(cands, "red", "green", "blue", "arial", "1px", "2px")
			case r.Default != "":
				cands = append(cands, defaults[r.Default]...)
			}
		}
		for _, val := range append(append([]string{}, cands...), impVariants(cands)...) {
			d := prop + ": " + val
			if !seen[d] && expectedStyle(v, el, []cssDecl{{prop, val}}) == d {
				seen[d] = true
				out = append(out, d)
			}
		}
	}
	return out
}

// impVariants: the first two candidate values with the priority flag.
func impVariants(cands []string) []string {
	var out []string
	for i, c := range cands {
		if i < 2 {
			out = append(out, c+" !important")
		}
	}
	return out
}

// firstBare: some non-void, non-raw-text element the policy allows without attributes (a container for leaf tests).
func firstBare(elems []string, v *spec.View) string {
	for _, e := range elems {
		if v.BareAllowed(e) && !obs.IsVoid(e) && !rawish[e] {
			return e
		}
	}
	return "b"
}

var patternCandidates = []string{"my-x", "my-xy", "my-y", "my-ab", "ui-card", "zz-top", "object", "title", "iframe", "b", "img", "p"}

func c07Elements(v *spec.View) []string {
	out := v.AllowedElementNames()
	for _, n := range patternCandidates {
		if !v.Elements[n] && v.ElementAllowed(n) {
			out = append(out, n)
		}
	}
	return out
}

func runC07(c *run.Ctx) {
	bs := c07Specs(c)
	maxAttrs := 2
	if !c.Quick() {
		maxAttrs = 3
	}
	for i := range bs {
		b := &bs[i]
		v := b.V
		elems := c07Elements(v)
		// first (simplest) conforming variant of every element, used as nested content
		firsts := map[string]string{}
		for _, el := range elems {
			if rawish[el] {
				continue
			}
			if vs := tagVariants(v, el, 1, true); len(vs) > 0 {
				last := vs[len(vs)-1]
				if obs.IsVoid(el) {
					firsts[el] = last
				} else {
					firsts[el] = last + "t</" + el + ">"
				}
			}
		}
		check := func(doc string) {
			if !c.Own([]byte(b.S.Name), []byte(doc)) {
				return
			}
			c.States++
			c.Trace(func() string { return b.S.String() + "\n" + run.Q(doc) })
			out, pm := San(b.P, doc)
			c.Eval()
			c.Transitions++
			c.Traces++
			if pm != "" {
				c.Violate("panic", "Sanitize panicked: "+pm, mkCase(b.S, []byte(doc)))
				return
			}
			if strings.Contains(doc, "=") {
				c.Nontrivial([]byte(b.S.Name), []byte(doc))
			}
			if sig, what := judgeConform(v, doc, out); sig != "" {
				c.Violate(sig, fmt.Sprintf("%s; policy=%s document=%s output=%s", what, b.S.Name, run.Q(doc), run.Q(out)), mkCase(b.S, []byte(doc)))
				c.Outcome("violation|" + sig)
				return
			}
			if out == doc {
				c.Outcome("unchanged")
			} else {
				c.Outcome("only-forced-attributes-differ")
			}
			if c.WantSample() && len(doc) > 30 {
				c.Sample(map[string]string{"policy": b.S.Name, "document": doc})
			}
		}
		// style attributes made of conforming declarations (one, and every ordered pair of two)
		for _, el := range elems {
			if rawish[el] || obs.IsVoid(el) {
				continue
			}
			ws := styleWitnesses(v, el)
			for i, a := range ws {
				check(startTag(el, []html.Attribute{{Key: "style", Val: a}}) + "t</" + el + ">")
				for j, b2 := range ws {
					if i != j {
						check(startTag(el, []html.Attribute{{Key: "style", Val: a + "; " + b2}}) + "t</" + el + ">")
					}
				}
			}
		}
		for _, el := range elems {
			if c.Expired() {
				break
			}
			if (el == "script" || el == "style") && !v.Unsafe {
				continue // never emitted without AllowUnsafe (C05)
			}
			if rawish[el] {
				// raw-text / RCDATA elements: text content only
				for _, st := range tagVariants(v, el, 1, true) {
					switch el {
					case "plaintext":
					case "textarea", "title":
						check(st + "t &amp; u</" + el + ">") // RCDATA: character references are decoded and re-escaped
					case "script", "style":
						check(st + "a > b && c</" + el + ">") // written back as it is under AllowUnsafe
					default:
						check(st + "t u</" + el + ">") // raw text: content is re-escaped verbatim, so keep it free of & and <
					}
				}
				continue
			}
			if v.BareAllowed(el) && !obs.IsVoid(el) {
				// the self-closing spelling of an element allowed without attributes is written back as it came
				sc := html.Token{Type: html.SelfClosingTagToken, Data: el}.String()
				check(sc)
				check("<" + firstBare(elems, v) + ">a" + sc + "b</" + firstBare(elems, v) + ">")
			}
			for _, st := range tagVariants(v, el, maxAttrs, true) {
				if obs.IsVoid(el) {
					check(st)
					check("t" + st + "u")
					continue
				}
				end := "</" + el + ">"
				check(st + end)
				check(st + "t &amp; &lt;u&gt;" + end)
				for _, in := range elems {
					if f, ok := firsts[in]; ok {
						check(st + f + end)
					}
				}
			}
		}
	}
	// size layer: conforming documents with one very long token (text run, attribute value, data: URI). Any cap on
	// token or document size below the largest size used here would alter one of them.
	var sizes []int
	for k := 10; k <= 22; k += 2 {
		sizes = append(sizes, 1<<k-1, 1<<k, 1<<k+1)
	}
	sizes = append(sizes, 1000000, 3000000)
	for _, name := range []string{"ugc", "cmd-email"} {
		var b *built
		for i := range bs {
			if bs[i].S.Name == name {
				b = &bs[i]
			}
		}
		if b == nil {
			continue
		}
		for _, n := range sizes {
			if c.Expired() {
				break
			}
			docs := []string{
				"<b>" + strings.Repeat("t", n) + "</b>",
				"<p>a</p>" + strings.Repeat("<i>t</i> ", n/16) + "<p>z</p>",
				`<a href="http://example.com/` + strings.Repeat("a", n) + `" rel="nofollow">l</a>`,
			}
			if name == "cmd-email" {
				docs = append(docs, `<img src="data:image/png;base64,`+strings.Repeat("QUJD", n/4)+`">`)
			}
			for _, doc := range docs {
				if !c.Own([]byte(b.S.Name), []byte(fmt.Sprint(len(doc), doc[:12]))) {
					continue
				}
				c.States++
				out, pm := San(b.P, doc)
				c.Eval()
				c.Transitions++
				c.Traces++
				if pm != "" {
					c.Violate("panic", "Sanitize panicked on a long document: "+pm, mkCase(b.S, []byte(doc)))
					continue
				}
				c.Nontrivial([]byte(b.S.Name), []byte(fmt.Sprint(len(doc), doc[:12])))
				if sig, what := judgeConform(b.V, doc, out); sig != "" {
					c.Violate(sig+"|long", fmt.Sprintf("%s; policy=%s document of %d bytes starting %s came back as %d bytes", what, b.S.Name, len(doc), run.Q(doc[:40]), len(out)), mkCase(b.S, []byte(doc)))
					c.Outcome("violation|" + sig)
					continue
				}
				c.Outcome("long-document-unchanged")
			}
		}
	}
	if c.Shard == 0 {
		c.Notes["policies"] = float64(len(bs))
	}
}

func replayC07(raw json.RawMessage) (bool, string) {
	cs, in := parseCase(raw)
	b := build(cs.Spec)
	out, pm := San(b.P, string(in))
	if pm != "" {
		return true, "panic: " + pm
	}
	sig, what := judgeConform(b.V, string(in), out)
	return sig != "", what + " output=" + run.Q(out)
}
