package checks

import (
	"encoding/json"
	"fmt"
	"strings"

	"verif/harness/internal/obs"
	"verif/harness/internal/run"
	"verif/harness/internal/spec"
)

// C07 — conforming content passes through unchanged (rules are additive).

func init() {
	register(&run.Check{
		ID:    "C07",
		Level: "model_checking",
		Rule: "bounded-exhaustive: a generated slice of policies = every unordered pair (thorough: triple) of attribute rules over {element / explicit-element-shadowing-a-pattern / two overlapping element patterns / global} x {no pattern, letters, digits} for one attribute, plus named policies (UGC, cmd policies, links, media with rewriter, foreign, patterns); " +
			"for every policy, every document its own vocabulary generates: each allowed element (names and pattern witnesses) x each subset of <=2 (thorough 3) applicable attributes x each witness value (values matching exactly one of the overlapping patterns and values matching several) x nesting depth <=2, in canonical serialisation. " +
			"Oracle: Sanitize(doc) == doc byte for byte after deleting, from both sides, attributes the policy instructs the sanitiser to add or rewrite. non-trivial = the document carries at least one attribute.",
		Assumptions: []string{
			"for an element allowed by name, documents use element and global rules only (README: explicit name => patterns ignored), so precedence is never relied on",
			"witness values per registered pattern are listed in internal/checks/conform.go; a witness the live pattern rejects is skipped (C19 judges the patterns)",
		},
		QuickBudget: 50, ThoroughBudget: 800,
		Run:    runC07,
		Replay: replayC07,
	})
}

type ruleShape struct {
	scope string // on-span | on-myx | pat-my | pat-myx | global
	re    string
}

func (r ruleShape) call(attr string) C {
	switch r.scope {
	case "on-span":
		return attrsOn([]string{attr}, r.re, "span")
	case "on-myx":
		return attrsOn([]string{attr}, r.re, "my-x")
	case "pat-my":
		return attrsPat([]string{attr}, r.re, reMy)
	case "pat-myx":
		return attrsPat([]string{attr}, r.re, reMyX)
	}
	return attrsGlob([]string{attr}, r.re)
}

func c07Specs(c *run.Ctx) []built {
	var shapes []ruleShape
	for _, sc := range []string{"on-span", "on-myx", "pat-my", "pat-myx", "global"} {
		for _, re := range []string{"", `^[a-z]+$`, `^[0-9]+$`} {
			shapes = append(shapes, ruleShape{sc, re})
		}
	}
	base := []C{els("span", "b"), {Op: "AllowElementsMatching", Re: reMy}, {Op: "AllowNoAttrs", Scope: "matching", OnRe: reMy}}
	var out []spec.Spec
	n := 0
	for i := range shapes {
		for j := i; j < len(shapes); j++ {
			calls := append(append([]C{}, base...), shapes[i].call("id"), shapes[j].call("id"))
			out = append(out, spec.Spec{Name: fmt.Sprintf("c07-pair-%d", n), Base: "new", Calls: calls})
			n++
			if !c.Quick() {
				for k := j; k < len(shapes); k += 2 {
					calls3 := append(append([]C{}, calls...), shapes[k].call("id"), attrsGlob([]string{"title"}, "Paragraph"))
					out = append(out, spec.Spec{Name: fmt.Sprintf("c07-triple-%d", n), Base: "new", Calls: calls3})
					n++
				}
			}
		}
	}
	// element reachable by name, by one pattern, by two; with and without AllowNoAttrs
	out = append(out,
		spec.Spec{Name: "c07-reach-name", Base: "new", Calls: []C{els("my-x", "span"), attrsGlob([]string{"id"}, "")}},
		spec.Spec{Name: "c07-reach-one-pattern", Base: "new", Calls: []C{attrsPat([]string{"id"}, "", reMy)}},
		spec.Spec{Name: "c07-reach-two-patterns", Base: "new", Calls: []C{attrsPat([]string{"id"}, `^[a-z]+$`, reMy), attrsPat([]string{"name"}, "", reMyX), {Op: "AllowNoAttrs", Scope: "matching", OnRe: reMyX}}},
		spec.Spec{Name: "c07-url", Base: "new", Calls: []C{attrsOn([]string{"href", "title"}, "", "a"), attrsOn([]string{"src", "alt"}, "", "img"), attrsOn([]string{"cite"}, "", "q", "blockquote"),
			{Op: "AllowURLSchemes", Names: []string{"http", "ftp"}}, opt("AllowRelativeURLs", true)}},
	)
	out = append(out,
		spec.Spec{Name: "c07-two-bare-patterns", Base: "new", Calls: []C{{Op: "AllowNoAttrs", Scope: "matching", OnRe: `^ui-[a-z]+$`}, {Op: "AllowNoAttrs", Scope: "matching", OnRe: reMyX},
			{Op: "AllowNoAttrs", Scope: "matching", OnRe: `^zz-`}, attrsPat([]string{"id"}, "", reMy)}},
		spec.Spec{Name: "c07-spaces-patterns", Base: "new", Calls: []C{opt("AddSpaceWhenStrippingTag", true), {Op: "AllowNoAttrs", Scope: "matching", OnRe: reMy}, attrsPat([]string{"id"}, `^[a-z]+$`, reMy),
			els("b", "span"), attrsGlob([]string{"title"}, "")}},
		spec.Spec{Name: "c07-spaces-ugc", Base: "ugc", Calls: []C{opt("AddSpaceWhenStrippingTag", true)}},
		spec.Spec{Name: "c07-bare-after-rules", Base: "new", Calls: []C{attrsOn([]string{"id"}, "", "a", "span"), attrsOn([]string{"title"}, "Paragraph", "a"), attrsPat([]string{"id"}, "", reMy),
			{Op: "AllowNoAttrs", Scope: "on", On: []string{"a", "span"}}, {Op: "AllowNoAttrs", Scope: "matching", OnRe: reMy}, els("a", "span")}},
		spec.Spec{Name: "c07-bare-builder-after-rules", Base: "new", Calls: []C{attrsOn([]string{"id"}, `^[a-z]+$`, "a"), {Op: "AllowAttrs", Names: []string{"title"}, NoAttrs: true, Scope: "on", On: []string{"a"}}}},
		spec.Spec{Name: "c07-url-widened", Base: "new", Calls: []C{attrsOn([]string{"href"}, "", "a"), attrsOn([]string{"src"}, "", "img"),
			{Op: "AllowURLSchemeWithCustomPolicy", Names: []string{"http"}, Fn: "never"}, {Op: "AllowURLSchemeWithCustomPolicy", Names: []string{"ftp"}, Fn: "never"},
			{Op: "AllowURLSchemes", Names: []string{"HTTP", "ftp"}}}},
		spec.Spec{Name: "c07-url-two-checks", Base: "new", Calls: []C{attrsOn([]string{"href"}, "", "a"),
			{Op: "AllowURLSchemeWithCustomPolicy", Names: []string{"http"}, Fn: "never"}, {Op: "AllowURLSchemeWithCustomPolicy", Names: []string{"http"}, Fn: "always"}}},
	)
	out = append(out, specsByName("ugc", "cmd-ugc", "cmd-email", "links", "media", "attrs", "pattern", "pattern-bare", "foreign", "bpbr", "skipmod")...)
	return buildAll(out)
}

var patternCandidates = []string{"my-x", "my-xy", "my-y", "my-ab", "ui-card", "zz-top"}

func c07Elements(v *spec.View) []string {
	out := v.AllowedElementNames()
	for _, n := range patternCandidates {
		if !v.Elements[n] && v.ElementAllowed(n) {
			out = append(out, n)
		}
	}
	return out
}

func runC07(c *run.Ctx) {
	bs := c07Specs(c)
	maxAttrs := 2
	if !c.Quick() {
		maxAttrs = 3
	}
	for i := range bs {
		b := &bs[i]
		v := b.V
		elems := c07Elements(v)
		// first (simplest) conforming variant of every element, used as nested content
		firsts := map[string]string{}
		for _, el := range elems {
			if rawish[el] {
				continue
			}
			if vs := tagVariants(v, el, 1, true); len(vs) > 0 {
				last := vs[len(vs)-1]
				if obs.IsVoid(el) {
					firsts[el] = last
				} else {
					firsts[el] = last + "t</" + el + ">"
				}
			}
		}
		check := func(doc string) {
			if !c.Own([]byte(b.S.Name), []byte(doc)) {
				return
			}
			c.States++
			c.Trace(func() string { return b.S.String() + "\n" + run.Q(doc) })
			out, pm := San(b.P, doc)
			c.Eval()
			c.Transitions++
			c.Traces++
			if pm != "" {
				c.Violate("panic", "Sanitize panicked: "+pm, mkCase(b.S, []byte(doc)))
				return
			}
			if strings.Contains(doc, "=") {
				c.Nontrivial([]byte(b.S.Name), []byte(doc))
			}
			if sig, what := judgeConform(v, doc, out); sig != "" {
				c.Violate(sig, fmt.Sprintf("%s; policy=%s document=%s output=%s", what, b.S.Name, run.Q(doc), run.Q(out)), mkCase(b.S, []byte(doc)))
				c.Outcome("violation|" + sig)
				return
			}
			if out == doc {
				c.Outcome("unchanged")
			} else {
				c.Outcome("only-forced-attributes-differ")
			}
			if c.WantSample() && len(doc) > 30 {
				c.Sample(map[string]string{"policy": b.S.Name, "document": doc})
			}
		}
		for _, el := range elems {
			if c.Expired() {
				break
			}
			if (el == "script" || el == "style") && !v.Unsafe {
				continue // never emitted without AllowUnsafe (C05)
			}
			if rawish[el] {
				// raw-text / RCDATA elements: text content only
				for _, st := range tagVariants(v, el, 1, true) {
					switch el {
					case "plaintext":
					case "textarea", "title":
						check(st + "t &amp; u</" + el + ">") // RCDATA: character references are decoded and re-escaped
					default:
						check(st + "t u</" + el + ">") // raw text: content is re-escaped verbatim, so keep it free of & and <
					}
				}
				continue
			}
			for _, st := range tagVariants(v, el, maxAttrs, true) {
				if obs.IsVoid(el) {
					check(st)
					check("t" + st + "u")
					continue
				}
				end := "</" + el + ">"
				check(st + end)
				check(st + "t &amp; &lt;u&gt;" + end)
				for _, in := range elems {
					if f, ok := firsts[in]; ok {
						check(st + f + end)
					}
				}
			}
		}
	}
	if c.Shard == 0 {
		c.Notes["policies"] = float64(len(bs))
	}
}

func replayC07(raw json.RawMessage) (bool, string) {
	cs, in := parseCase(raw)
	b := build(cs.Spec)
	out, pm := San(b.P, string(in))
	if pm != "" {
		return true, "panic: " + pm
	}
	sig, what := judgeConform(b.V, string(in), out)
	return sig != "", what + " output=" + run.Q(out)
}
