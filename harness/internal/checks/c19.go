package checks

import (
	"encoding/json"
	"fmt"
	"regexp"
	"strings"
	"unicode"

	"github.com/microcosm-cc/bluemonday"

	"verif/harness/internal/run"
)

// C19 — exported attribute matchers are anchored, closed-alphabet recognisers.

func init() {
	register(&run.Check{
		ID:    "C19",
		Level: "model_checking",
		Rule: "bounded-exhaustive, per exported matcher: every string of length <=L (L per matcher, 4..6) over that matcher's own alphabet plus the HTML-significant characters < > \" = ` NUL BEL ; & U+00A0 U+FF1C, a line feed, three non-ASCII numerals (U+00B2, U+0661, U+2167) and U+017F; every string of length <=3 over that alphabet widened by 19 regular-expression metacharacters (| : ? ( ) [ ] * + . ^ $ \\ { } , - #), " +
			"every splice of the beginning of one documented example with the end of another, every single and double metacharacter insertion / substitution, and every single and double character substitution / insertion / deletion (over the matcher alphabet) of every documented example (for ISO8601 each of the six documented shapes and their space / Z / offset variants). " +
			"Oracle: MatchString(s) implies that a hand-written recogniser of the documented form accepts s (hence every character of s is in the documented alphabet); every documented example is accepted. " +
			"non-trivial = strings on which matcher and recogniser both answer yes, plus strings that differ from an accepted one by a single edit and are rejected.",
		Assumptions: []string{"the recognisers in internal/checks/c19.go are the reference for 'documented form'; letter-case folding is ASCII only in the alphabets used"},
		QuickBudget: 50, ThoroughBudget: 800,
		Run:    runC19,
		Replay: replayC19,
	})
}

type matcherSpec struct {
	name     string
	re       func() *regexp.Regexp
	recog    func(string) bool
	alphabet string
	examples []string
	maxLen   int
}

const hostileChars = "<>\"=`\x00\x07;&\u00a0\uff1c\n\u00b2\u0661\u2167\u017f"

const regexMeta = "|:?()[]*+.^$\\{},-#"

func kwRecog(words ...string) func(string) bool {
	return func(s string) bool {
		for _, w := range words {
			if strings.EqualFold(s, w) && isASCII(s) {
				return true
			}
		}
		return false
	}
}

func isASCII(s string) bool {
	for i := 0; i < len(s); i++ {
		if s[i] >= 0x80 {
			return false
		}
	}
	return true
}

func isDigits(s string) bool {
	if s == "" {
		return false
	}
	for i := 0; i < len(s); i++ {
		if s[i] < '0' || s[i] > '9' {
			return false
		}
	}
	return true
}

// recogISO8601: YYYY[-MM[-DD[(T| )hh:mm[:ss][.f{1,6}][Z][(+|-)hh:mm]]]]
func recogISO8601(s string) bool {
	take := func(n int) bool {
		if len(s) < n || !isDigits(s[:n]) {
			return false
		}
		s = s[n:]
		return true
	}
	lit := func(set string) bool {
		if len(s) > 0 && strings.IndexByte(set, s[0]) >= 0 {
			s = s[1:]
			return true
		}
		return false
	}
	if !take(4) {
		return false
	}
	if s == "" {
		return true
	}
	if !lit("-") || !take(2) {
		return false
	}
	if s == "" {
		return true
	}
	if !lit("-") || !take(2) {
		return false
	}
	if s == "" {
		return true
	}
	if !lit("T ") || !take(2) || !lit(":") || !take(2) {
		return false
	}
	if len(s) > 0 && s[0] == ':' {
		s = s[1:]
		if !take(2) {
			return false
		}
	}
	if len(s) > 0 && s[0] == '.' {
		s = s[1:]
		n := 0
		for n < len(s) && n < 6 && s[n] >= '0' && s[n] <= '9' {
			n++
		}
		if n == 0 {
			return false
		}
		s = s[n:]
	}
	lit("Z")
	if s == "" {
		return true
	}
	if !lit("+-") || !take(2) || !lit(":") || !take(2) {
		return false
	}
	return s == ""
}

func recogNumber(s string) bool {
	// [-+]? digits* .? digits+ ([eE][-+]?digits+)?
	if len(s) > 0 && (s[0] == '-' || s[0] == '+') {
		s = s[1:]
	}
	i := 0
	for i < len(s) && s[i] >= '0' && s[i] <= '9' {
		i++
	}
	intDigits := i
	fracDigits := 0
	if i < len(s) && s[i] == '.' {
		j := i + 1
		for j < len(s) && s[j] >= '0' && s[j] <= '9' {
			j++
		}
		fracDigits = j - i - 1
		if fracDigits == 0 {
			return false
		}
		i = j
	} else if intDigits == 0 {
		return false
	}
	_ = fracDigits
	s = s[i:]
	if s == "" {
		return true
	}
	if s[0] != 'e' && s[0] != 'E' {
		return false
	}
	s = s[1:]
	if len(s) > 0 && (s[0] == '-' || s[0] == '+') {
		s = s[1:]
	}
	return isDigits(s)
}

func recogTokens(s string) bool {
	if s == "" {
		return false
	}
	for _, r := range s {
		switch {
		case r == ' ' || r == '\t' || r == '\n' || r == '\f' || r == '\r':
		case unicode.IsLetter(r) || unicode.IsNumber(r):
		case r == '_' || r == '-':
		default:
			return false
		}
	}
	return true
}

func recogParagraph(s string) bool {
	for _, r := range s {
		switch {
		case r == ' ' || r == '\t' || r == '\n' || r == '\f' || r == '\r':
		case unicode.IsLetter(r) || unicode.IsNumber(r):
		case strings.ContainsRune(`-_',[]!./\()`, r):
		default:
			return false
		}
	}
	return true
}

func matcherSpecs() []matcherSpec {
	return []matcherSpec{
		{"CellAlign", func() *regexp.Regexp { return bluemonday.CellAlign }, kwRecog("center", "justify", "left", "right", "char"), "centrjusiflyghaLC",
			[]string{"center", "justify", "left", "right", "char", "LEFT"}, 4},
		{"CellVerticalAlign", func() *regexp.Regexp { return bluemonday.CellVerticalAlign }, kwRecog("baseline", "bottom", "middle", "top"), "baselintomdpTB",
			[]string{"baseline", "bottom", "middle", "top", "Top"}, 4},
		{"Direction", func() *regexp.Regexp { return bluemonday.Direction }, kwRecog("rtl", "ltr"), "rtlRTL",
			[]string{"rtl", "ltr", "RTL"}, 6},
		{"ImageAlign", func() *regexp.Regexp { return bluemonday.ImageAlign }, kwRecog("left", "right", "top", "texttop", "middle", "absmiddle", "baseline", "bottom", "absbottom"), "leftrighopxmdabsnLT",
			[]string{"left", "right", "top", "texttop", "middle", "absmiddle", "baseline", "bottom", "absbottom"}, 4},
		{"Integer", func() *regexp.Regexp { return bluemonday.Integer }, isDigits, "0159-+.e ",
			[]string{"0", "12", "007"}, 6},
		{"ISO8601", func() *regexp.Regexp { return bluemonday.ISO8601 }, recogISO8601, "019-:T .Z+",
			[]string{"1997", "1997-07", "1997-07-16", "1997-07-16T19:20+01:00", "1997-07-16T19:20:30+01:00", "1997-07-16T19:20:30.45+01:00",
				"1997-07-16T19:20Z", "1997-07-16 19:20:30.123456-05:30"}, 6},
		{"ListType", func() *regexp.Regexp { return bluemonday.ListType }, kwRecog("circle", "disc", "square", "a", "i", "1"), "circledsquaAI1",
			[]string{"circle", "disc", "square", "a", "A", "i", "I", "1"}, 4},
		{"SpaceSeparatedTokens", func() *regexp.Regexp { return bluemonday.SpaceSeparatedTokens }, recogTokens, "aZé9 \t_-.:/",
			[]string{"a", "a b", "tok_1-x", "nofollow noopener"}, 5},
		{"Number", func() *regexp.Regexp { return bluemonday.Number }, recogNumber, "019.-+eE x",
			[]string{"1", "1.5", "-2e3", ".5", "+10E-2"}, 6},
		{"NumberOrPercent", func() *regexp.Regexp { return bluemonday.NumberOrPercent }, func(s string) bool {
			t := strings.TrimSuffix(s, "%")
			return isDigits(t) && (len(s)-len(t)) <= 1
		}, "019%.- ", []string{"50%", "12", "0"}, 6},
		{"Paragraph", func() *regexp.Regexp { return bluemonday.Paragraph }, recogParagraph, "aZé9 \n-_',[]!./\\():*?",
			[]string{"Some text, ok (fine)", "it's [a] test! a/b\\c.", ""}, 4},
	}
}

func runC19(c *run.Ctx) {
	for _, m := range matcherSpecs() {
		re := m.re()
		alpha := []rune(m.alphabet + hostileChars)
		judge := func(s string, viaEdit bool) {
			if !c.Own([]byte(m.name), []byte(s)) {
				return
			}
			c.Eval()
			c.States++
			c.Transitions++
			c.Traces++
			got := re.MatchString(s)
			want := m.recog(s)
			switch {
			case got && !want && m.recog(strings.NewReplacer("\u017f", "s", "\u212a", "k").Replace(s)):
				// (?i) in Go folds U+017F (long s) onto s and U+212A (Kelvin sign) onto k: the only way in which
				// this string leaves the documented form. Own signature, so that any other wrong acceptance by
				// the same matcher is still reported.
				c.Violate("accepts|"+m.name+"|unicode-case-fold", fmt.Sprintf("%s matches %s: (?i) folds a non-ASCII letter onto an ASCII one", m.name, run.Q(s)), map[string]string{"matcher": m.name, "s_b64": run.B64([]byte(s)), "s": run.Q(s)})
				c.Outcome("known-class|unicode-case-fold|" + m.name)
			case got && !want:
				c.Violate("accepts|"+m.name, fmt.Sprintf("%s matches %s, which is not of the documented form", m.name, run.Q(s)), map[string]string{"matcher": m.name, "s_b64": run.B64([]byte(s)), "s": run.Q(s)})
				c.Outcome("violation|accepts|" + m.name)
			case got && want:
				c.Nontrivial([]byte(m.name), []byte(s))
				c.Outcome(m.name + "|accepted")
				if c.WantSample() && len(s) > 3 {
					c.Sample(map[string]string{"matcher": m.name, "accepted": s})
				}
			case viaEdit:
				c.Nontrivial([]byte(m.name), []byte(s))
				c.Outcome(m.name + "|near-miss-rejected")
			default:
				c.Outcome(m.name + "|rejected")
			}
		}
		// documented examples must be accepted
		for _, ex := range m.examples {
			if c.Shard == 0 {
				c.Eval()
				if !re.MatchString(ex) {
					c.Violate("rejects-example|"+m.name, fmt.Sprintf("%s rejects its documented example %s", m.name, run.Q(ex)), map[string]string{"matcher": m.name, "s_b64": run.B64([]byte(ex)), "s": run.Q(ex), "expect": "accept"})
				}
			}
		}
		// all strings up to maxLen
		L := m.maxLen
		if c.Quick() && L > 4 && len(alpha) > 18 {
			L--
		}
		buf := make([]rune, 0, L)
		var rec func()
		rec = func() {
			if c.Expired() {
				return
			}
			judge(string(buf), false)
			if len(buf) == L {
				return
			}
			for _, r := range alpha {
				buf = append(buf, r)
				rec()
				buf = buf[:len(buf)-1]
			}
		}
		rec()
		// regular-expression metacharacters (what a slip in the pattern's own syntax lets through as a literal):
		// every string of length <=3 over alphabet + metacharacters, and every single and double edit of the examples
		// that inserts or substitutes a metacharacter
		wide := []rune(m.alphabet + hostileChars + regexMeta)
		{
			buf := make([]rune, 0, 3)
			var rec func()
			rec = func() {
				if c.Expired() {
					return
				}
				judge(string(buf), false)
				if len(buf) == 3 {
					return
				}
				for _, r := range wide {
					buf = append(buf, r)
					rec()
					buf = buf[:len(buf)-1]
				}
			}
			rec()
		}
		metaEdits := func(s []rune, fn func([]rune)) {
			for i := 0; i <= len(s); i++ {
				for _, r := range []rune(regexMeta) {
					fn(append(append(append([]rune{}, s[:i]...), r), s[i:]...))
					if i < len(s) && r != s[i] {
						t := append([]rune{}, s...)
						t[i] = r
						fn(t)
					}
				}
			}
		}
		for _, ex := range m.examples {
			metaEdits([]rune(ex), func(t []rune) {
				judge(string(t), true)
				if len(ex) <= 12 {
					metaEdits(t, func(u []rune) { judge(string(u), true) })
				}
			})
		}
		// splices of the documented examples: the beginning of one with the end of another (what an over-factored
		// alternation such as (abs|text)?(top|middle|bottom) lets through), and one example repeated
		for _, e1 := range m.examples {
			for _, e2 := range m.examples {
				r1, r2 := []rune(e1), []rune(e2)
				if len(r1) > 16 || len(r2) > 16 {
					continue
				}
				for i := 0; i <= len(r1); i++ {
					for j := 0; j <= len(r2); j++ {
						judge(string(r1[:i])+string(r2[j:]), true)
					}
				}
			}
		}
		// edits of the documented examples
		edits := func(s []rune, fn func([]rune)) {
			for i := 0; i <= len(s); i++ {
				for _, r := range alpha {
					t := append(append(append([]rune{}, s[:i]...), r), s[i:]...)
					fn(t)
				}
				if i < len(s) {
					t := append(append([]rune{}, s[:i]...), s[i+1:]...)
					fn(t)
					for _, r := range alpha {
						if r != s[i] {
							t := append([]rune{}, s...)
							t[i] = r
							fn(t)
						}
					}
				}
			}
		}
		for _, ex := range m.examples {
			edits([]rune(ex), func(t []rune) {
				judge(string(t), true)
				if c.Expired() {
					return
				}
				if len(ex) <= 12 || !c.Quick() {
					edits(t, func(u []rune) { judge(string(u), true) })
				} else {
					// long examples in quick: second edit restricted to the hostile characters and '.', ':'
					for i := 0; i <= len(t); i++ {
						for _, r := range []rune(hostileChars + ".:") {
							u := append(append(append([]rune{}, t[:i]...), r), t[i:]...)
							judge(string(u), true)
							if i < len(t) {
								w := append([]rune{}, t...)
								w[i] = r
								judge(string(w), true)
							}
						}
					}
				}
			})
		}
	}
}

func replayC19(raw json.RawMessage) (bool, string) {
	var x map[string]string
	json.Unmarshal(raw, &x)
	s := string(run.UnB64(x["s_b64"]))
	for _, m := range matcherSpecs() {
		if m.name != x["matcher"] {
			continue
		}
		got := m.re().MatchString(s)
		if x["expect"] == "accept" {
			return !got, fmt.Sprintf("%s rejects documented example %s", m.name, run.Q(s))
		}
		return got && !m.recog(s), fmt.Sprintf("%s matches %s which is not of the documented form", m.name, run.Q(s))
	}
	return false, "unknown matcher"
}
