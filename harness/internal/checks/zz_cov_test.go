package checks

import (
	"os"
	"testing"

	"verif/harness/internal/run"
)

// TestCoverageOfChecks runs every uninstrumented check in-process (one shard, small budget) so that
// `go test -coverpkg=github.com/microcosm-cc/bluemonday/...` shows which statements of the library the
// checks never execute. Not part of any registered command; used while developing the alphabets.
func TestCoverageOfChecks(t *testing.T) {
	if os.Getenv("VERIF_COV") == "" {
		t.Skip("set VERIF_COV=1")
	}
	os.Setenv("VERIF_BUDGET", "6")
	for _, id := range IDs() {
		switch id {
		case "C08", "C09", "C13", "C14":
			continue
		}
		out := t.TempDir() + "/" + id + ".json"
		run.RunShard(All[id], "quick", 0, 16, out)
	}
}
