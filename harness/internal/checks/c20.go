package checks

import (
	"encoding/json"
	"fmt"
	"strings"

	"golang.org/x/net/html"

	"verif/harness/internal/obs"
	"verif/harness/internal/run"
	"verif/harness/internal/spec"
)

// C20 — re-sanitising sanitised output is a no-op.

func init() {
	register(&run.Check{
		ID:    "C20",
		Level: "model_checking",
		Rule: "bounded-exhaustive: fragment sequences (k<=3 over F, k<=4 over the core), byte strings over B, URL strings (sequences <=3 over the URL alphabet, and <=3 tail fragments after ten well-formed prefixes, placed in a.href / img.src / q.cite; the URL layers include a policy that admits ftp / tel by scheme pattern only) link attribute lists (<=3; <=2 under every combination of the five link options x rel / target admission) and style attributes (<=2 declarations of C10's alphabet under every in-class style rule set and a permissive value pattern), " +
			"crossed with every policy of the family that is in the property's class (no raw-text element, no comments, no value pattern on rewritten attributes, no rewriter) plus Strict and UGC " +
			"(UGC only when no del/ins cite survives the first pass). Oracle: Sanitize(Sanitize(x)) == Sanitize(x). non-trivial = first pass changed the input." +
			" Policies with AllowUnsafe that allow neither script nor style are in the class.",
		Assumptions: []string{"class membership is decided by the harness's spec view of the builder calls, not by inspecting the policy object"},
		QuickBudget: 50, ThoroughBudget: 800,
		Run:    runC20,
		Replay: replayC20,
	})
}

var rewrittenAttrs = []string{"href", "cite", "src", "rel", "target", "crossorigin", "sandbox"}

// inC20Class decides membership of the general policy class of C20.
func inC20Class(v *spec.View) bool {
	if v.Comments || v.Rewriter != "" {
		return false
	}
	// AllowUnsafe matters only for script / style: with either allowed the policy allows a raw-text element
	if v.Unsafe && (v.ElementAllowed("script") || v.ElementAllowed("style")) {
		return false
	}
	for _, e := range []string{"iframe", "noembed", "noframes", "noscript", "plaintext", "xmp"} {
		if v.ElementAllowed(e) {
			return false
		}
	}
	for _, a := range rewrittenAttrs {
		if v.ValueREOn[a] {
			return false
		}
	}
	return true
}

// ugcProviso: no del/ins cite attribute survived the first pass.
func ugcProviso(out string) bool {
	for _, t := range obs.Retok(out) {
		if (t.Type == html.StartTagToken || t.Type == html.SelfClosingTagToken) && (t.Name == "del" || t.Name == "ins") {
			for _, a := range t.Attr {
				if a.Key == "cite" {
					return false
				}
			}
		}
	}
	return true
}

// classifyC20 gives a signature as specific as the deviation.
func classifyC20(v *spec.View, o1, o2 string) string {
	t1, t2 := obs.Retok(o1), obs.Retok(o2)
	if len(t1) != len(t2) {
		return "token-count"
	}
	for i := range t1 {
		a, b := t1[i], t2[i]
		if a.Type != b.Type || a.Name != b.Name {
			return "token-kind"
		}
		if a.Type == html.TextToken && a.Data != b.Data {
			return "text"
		}
		if len(a.Attr) != len(b.Attr) {
			return "attr-count|" + a.Name
		}
		same := true
		for j := range a.Attr {
			if a.Attr[j] != b.Attr[j] {
				same = false
			}
		}
		if same {
			continue
		}
		// same multiset in a different order?
		m := map[html.Attribute]int{}
		for _, x := range a.Attr {
			m[x]++
		}
		for _, x := range b.Attr {
			m[x]--
		}
		perm := true
		for _, n := range m {
			if n != 0 {
				perm = false
			}
		}
		if perm {
			// which attributes moved
			moved := map[string]bool{}
			for j := range a.Attr {
				if a.Attr[j] != b.Attr[j] {
					moved[a.Attr[j].Key] = true
					moved[b.Attr[j].Key] = true
				}
			}
			var ks []string
			for _, k := range []string{"rel", "target", "href", "crossorigin", "sandbox"} {
				if moved[k] {
					ks = append(ks, k)
					delete(moved, k)
				}
			}
			if len(moved) > 0 {
				ks = append(ks, "other")
			}
			admitsRel := len(v.AttrRules(a.Name, "rel")) > 0
			admitsTarget := len(v.AttrRules(a.Name, "target")) > 0
			return fmt.Sprintf("attr-order|%s|moved=%s|admits-rel=%v|admits-target=%v", a.Name, strings.Join(ks, "+"), admitsRel, admitsTarget)
		}
		for j := range a.Attr {
			if a.Attr[j] != b.Attr[j] {
				if a.Attr[j].Key != b.Attr[j].Key {
					return "attr-key|" + a.Name
				}
				return "attr-value|" + a.Name + "." + a.Attr[j].Key
			}
		}
	}
	return "serialisation"
}

func judgeC20(b *built, in string) (sig, what string, nontrivial bool, applicable bool) {
	o1, pm := San(b.P, in)
	if pm != "" {
		return "panic", "Sanitize panicked: " + pm, false, true
	}
	if b.S.Base == "ugc" && len(b.S.Calls) == 0 {
		if !ugcProviso(o1) {
			return "", "", false, false
		}
	}
	o2, pm := San(b.P, o1)
	if pm != "" {
		return "panic", "second Sanitize panicked: " + pm, false, true
	}
	if o1 != o2 {
		return classifyC20(b.V, o1, o2), fmt.Sprintf("Sanitize(Sanitize(x)) != Sanitize(x): policy=%s x=%s pass1=%s pass2=%s", b.S.Name, run.Q(in), run.Q(o1), run.Q(o2)), true, true
	}
	return "", "", o1 != in, true
}

func c20Specs(c *run.Ctx) []built {
	var cand []spec.Spec
	cand = append(cand, namedSpecs()...)
	// link-shaped policies: each combination of admitting rel / target, with link options
	for _, rel := range []bool{false, true} {
		for _, tgt := range []bool{false, true} {
			at := []string{"href"}
			if rel {
				at = append(at, "rel")
			}
			if tgt {
				at = append(at, "target")
			}
			cand = append(cand, spec.Spec{Name: fmt.Sprintf("link-rel%v-target%v", rel, tgt), Base: "new", Calls: []C{
				attrsOn(at, "", "a", "area", "link"),
				{Op: "AllowStandardURLs"},
				opt("RequireNoReferrerOnFullyQualifiedLinks", true),
				opt("AddTargetBlankToFullyQualifiedLinks", true),
			}})
		}
	}
	cand = append(cand,
		spec.Spec{Name: "crossorigin-url", Base: "new", Calls: []C{attrsOn([]string{"src", "alt"}, "", "img", "audio", "video"), attrsOn([]string{"href"}, "", "link", "a", "area"),
			{Op: "AllowStandardURLs"}, opt("RequireCrossOriginAnonymous", true), attrsOn([]string{"target"}, "", "area", "a"), opt("AddTargetBlankToFullyQualifiedLinks", true)}},
		// schemes admitted by name and schemes admitted only by pattern take different branches of the URL normal form
		spec.Spec{Name: "c20-scheme-pattern", Base: "new", Calls: []C{attrsOn([]string{"href"}, "", "a"), attrsOn([]string{"src"}, "", "img"), attrsOn([]string{"cite"}, "", "q"),
			{Op: "AllowURLSchemes", Names: []string{"https"}}, {Op: "AllowURLSchemesMatching", Re: `^(ftp|tel)$`}}},
		// the text of removed script / style elements is written back (escaped) when their content is un-skipped under AllowUnsafe
		spec.Spec{Name: "c20-unsafe-script-text-kept", Base: "new", Calls: []C{els("b", "i", "p"), opt("AllowUnsafe", true), {Op: "AllowElementsContent", Names: []string{"script", "style"}}}},
		spec.Spec{Name: "crossorigin-admitted", Base: "new", Calls: []C{attrsOn([]string{"src", "crossorigin"}, "", "img", "audio"), opt("RequireCrossOriginAnonymous", true), els("b")}},
	)
	k := 2
	if !c.Quick() {
		k = 3
	}
	cand = append(cand, subsetSpecs(k)...)
	var out []built
	for _, s := range cand {
		b := build(s)
		if s.Base == "strict" || (s.Base == "ugc" && len(s.Calls) == 0) || inC20Class(b.V) {
			out = append(out, b)
		}
	}
	return out
}

func runC20(c *run.Ctx) {
	bs := c20Specs(c)
	var named, subs []built
	for _, b := range bs {
		if strings.HasPrefix(b.S.Name, "subset-") {
			subs = append(subs, b)
		} else {
			named = append(named, b)
		}
	}
	eval := func(set []built, in []byte) {
		s := string(in)
		c.States++
		for i := range set {
			b := &set[i]
			c.Trace(func() string { return b.S.String() + "\n" + run.Q(s) })
			sig, what, nt, app := judgeC20(b, s)
			if !app {
				c.Outcome("ugc-proviso-excluded")
				continue
			}
			c.Eval()
			c.Transitions++
			c.Traces++
			if nt {
				c.Nontrivial([]byte(b.S.Name), in)
			}
			if sig != "" {
				c.Violate(sig, what, mkCase(b.S, in))
				c.Outcome("deviation|" + sig)
				continue
			}
			if nt {
				c.Outcome(b.S.Name + "|changed-then-stable")
				if c.WantSample() && len(in) > 8 {
					c.Sample(map[string]string{"policy": b.S.Name, "input": s})
				}
			} else {
				c.Outcome(b.S.Name + "|fixed-point")
			}
		}
	}
	all := fragAll()
	allSpecs := append(append([]built{}, named...), subs...)
	Seqs(c, all, 0, 2, func(in []byte, _ []int) { eval(allSpecs, in) })
	if c.Quick() {
		Seqs(c, all, 3, 3, func(in []byte, _ []int) { eval(named, in) })
		Seqs(c, fragCore, 4, 4, func(in []byte, _ []int) { eval(named[:min(6, len(named))], in) })
	} else {
		// thorough: k=3 on named + every <=2-subset policy in class, k=4 over the core on all named, k=5 over the core on four
		small := append([]built{}, named...)
		for _, s := range subsetSpecs(2) {
			b := build(s)
			if inC20Class(b.V) {
				small = append(small, b)
			}
		}
		Seqs(c, all, 3, 3, func(in []byte, _ []int) { eval(small, in) })
		Seqs(c, fragCore, 4, 4, func(in []byte, _ []int) { eval(named, in) })
		Seqs(c, fragCore, 5, 5, func(in []byte, _ []int) { eval(named[:min(4, len(named))], in) })
	}
	SeqsS(c, "exotic", fragCoreExotic(), 0, 2, func(in []byte, _ []int) { eval(allSpecs, in) })
	SeqsS(c, "exotic", fragCoreExotic(), 3, 3, func(in []byte, _ []int) { eval(named[:min(8, len(named))], in) })
	// URL layer
	urlSpecs := pick(named, "ugc", "links", "link-relfalse-targetfalse", "link-reltrue-targettrue", "cmd-ugc", "c20-scheme-pattern")
	ku := 3
	if !c.Quick() {
		ku = 4
	}
	pos := []struct{ pre, post string }{{`<a href=`, `>x</a>`}, {`<img src=`, `>`}, {`<q cite=`, `>x</q>`}}
	SeqsS(c, "url", urlFrags, 1, ku, func(u []byte, _ []int) {
		q := htmlAttrQuote(string(u))
		for _, p := range pos {
			eval(urlSpecs, []byte(p.pre+q+p.post))
		}
	})
	// tails after a well-formed prefix (what the normal form does with the end of an absolute or relative URL)
	for _, pre := range urlPrefixes {
		SeqsS(c, "urltail"+pre, urlTailFrags, 1, 3, func(u []byte, _ []int) {
			q := htmlAttrQuote(pre + string(u))
			for _, p := range pos {
				eval(urlSpecs, []byte(p.pre+q+p.post))
			}
		})
	}
	nb := 4
	if !c.Quick() {
		nb = 5
	}
	BytesS(c, "urlb", urlBytes, 1, nb, func(u []byte) {
		eval(urlSpecs[:min(2, len(urlSpecs))], []byte(`<a href=`+htmlAttrQuote(string(u))+`>`))
	})
	// link attribute-list layer
	linkSpecs := pick(named, "links", "link-relfalse-targetfalse", "link-relfalse-targettrue", "link-reltrue-targetfalse", "link-reltrue-targettrue", "ugc", "cmd-ugc", "cmd-email")
	la := linkAttrAlphabet()
	kl := 3
	if !c.Quick() {
		kl = 4
	}
	for _, el := range []string{"a", "area", "link"} {
		SeqsS(c, "link:"+el, la, 0, kl, func(attrs []byte, _ []int) {
			eval(linkSpecs, []byte("<"+el+string(attrs)+">"))
		})
	}
	// style layer: every style rule set of C10 that is in class, plus a permissive value pattern (which lets escapes and
	// upper case through to the output), x every sequence of <=2 declarations of C10's alphabet (escapes, upper case,
	// comments, malformed tails) on two element classes
	var styleSpecs []built
	for _, b := range c10Specs() {
		if inC20Class(b.V) {
			styleSpecs = append(styleSpecs, b)
		}
	}
	styleSpecs = append(styleSpecs, build(spec.Spec{Name: "c20-style-permissive", Base: "new", Calls: []C{els("p", "span"), {Op: "AllowElementsMatching", Re: reMy},
		{Op: "AllowStyles", Names: []string{"color", "font-family"}, Re: `^[a-zA-Z0-9\\ ,'"#-]*$`, Scope: "global"},
		{Op: "AllowStyles", Names: []string{"width"}, Re: `^[A-Za-z0-9\\ ]+$`, Scope: "on", On: []string{"p"}},
		{Op: "AllowStyles", Names: []string{"content"}, Re: `.*`, Scope: "matching", OnRe: reMy}}}))
	dts := make([]string, len(c10Decls))
	for i, d := range c10Decls {
		dts[i] = d.text + "; "
	}
	SeqsS(c, "c20style", dts, 1, 2, func(st []byte, _ []int) {
		q := htmlAttrQuote(strings.ReplaceAll(strings.TrimSuffix(string(st), "; "), "&", "&amp;"))
		eval(styleSpecs, []byte("<p style="+q+">t</p>"))
		eval(styleSpecs, []byte("<my-x id=a style="+q+">t</my-x>"))
	})
	// every combination of the five link options x rel admitted (plain / with pattern) or not x target admitted or not
	var optSpecs []built
	for _, b := range c11Specs() {
		if inC20Class(b.V) {
			optSpecs = append(optSpecs, b)
		}
	}
	for _, el := range []string{"a", "area", "link"} {
		SeqsS(c, "linkopts:"+el, la, 1, 2, func(attrs []byte, _ []int) {
			eval(optSpecs, []byte("<"+el+string(attrs)+">"))
		})
	}
	if c.Shard == 0 {
		c.Notes["policies_in_class"] = float64(len(bs) + len(optSpecs))
	}
}

func pick(bs []built, names ...string) []built {
	var out []built
	for _, n := range names {
		for _, b := range bs {
			if b.S.Name == n {
				out = append(out, b)
			}
		}
	}
	return out
}

func min(a, b int) int {
	if a < b {
		return a
	}
	return b
}

// linkAttrAlphabet: attributes for link elements (C11, C20).
func linkAttrAlphabet() []string {
	return []string{
		` href="http://e.x/"`, ` href="//e.x/p"`, ` href="/local"`, ` href="#f"`, ` href="mailto:a@e.x"`, ` href="javascript:x"`, ` href=""`,
		` href=" http://e.x/"`, // raw value unparseable (leading space), normalised value host-qualified
		` href="/%2Fe.x/&lt;"`, // raw value a local path, normal form re-escaped
		` href="https:e.x/p"`,  // no slashes after a special scheme: a browser still finds the host e.x
		` href="ftp:e.x/p"`,
		` href="https:/e.x/p"`,    // one slash: net/url sees a path, a browser the host e.x
		` href="http://e.x/100%"`, // net/url refuses the escape, a browser follows the link (survives only with RequireParseableURLs(false))
		` rel=""`, ` rel="nofollow"`, ` rel="noreferrer"`, ` rel="noopener"`, ` rel="NOFOLLOW"`, ` rel="nofollowx"`, ` rel="xnofollow"`,
		` rel="external nofollow"`, ` rel="a&#9;b"`, ` rel="xnoopener noreferrerx"`, ` rel="nofollow&nbsp;noreferrer&nbsp;noopener"`,
		` target="_blank"`, ` target="_self"`, ` target="x"`, ` title="t"`,
		` target="_BLANK"`, // the keyword is ASCII case-insensitive for a browser
	}
}

func replayC20(raw json.RawMessage) (bool, string) {
	cs, in := parseCase(raw)
	b := build(cs.Spec)
	sig, what, _, app := judgeC20(&b, string(in))
	if !app {
		return false, "excluded by the UGC proviso"
	}
	return sig != "", what
}
