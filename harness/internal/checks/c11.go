package checks

import (
	"encoding/json"
	"fmt"
	"strings"

	"golang.org/x/net/html"

	"verif/harness/internal/obs"
	"verif/harness/internal/run"
	"verif/harness/internal/spec"
)

// C11 — link hardening: nofollow, noreferrer, noopener and _blank are really present.

func init() {
	register(&run.Check{
		ID:    "C11",
		Level: "model_checking",
		Rule: "bounded-exhaustive: elements {a, area, link} x every attribute list of length <=3 (thorough 4) with repetition over 21 attributes (href external / scheme-relative / local / fragment / mailto / javascript / empty; rel values including tokens that merely contain the required words, upper case, tab-separated; target _blank / _BLANK / _self / other; an unrelated attribute) " +
			"x all 32 combinations of the five link options x {rel admitted without pattern | with SpaceSeparatedTokens | not admitted} x {target admitted | not}. " +
			"Oracle on the first rel / first target of each output tag that carries an href (as a browser reads duplicates): required tokens present per option and per host-qualification of the first surviving href, target=_blank where required, noopener whenever an a ends up with a target that is _blank in any letter case, " +
			"every token of each surviving input rel still present, required tokens not more frequent than in the input or once; when the tag has exactly one href and at most one target, no rel token that neither the input carried nor an option in force requires for that link. non-trivial = at least one requirement applied to the output tag." +
			" Six option masks with RequireParseableURLs(false) set after the link options (hrefs net/url refuses but a browser follows reach the hardening pass); 'has a host' strips leading / trailing C0 and space and tab / newline first.",
		Assumptions: []string{
			"'has a host' is judged as a browser does (for http / https the slashes after the scheme are optional)",
			"requirements are evaluated only for elements that carry an href in the output",
		},
		QuickBudget: 50, ThoroughBudget: 800,
		Run:    runC11,
		Replay: replayC11,
	})
}

func c11Specs() []built {
	var out []spec.Spec
	optNames := []string{"RequireNoFollowOnLinks", "RequireNoFollowOnFullyQualifiedLinks", "RequireNoReferrerOnLinks",
		"RequireNoReferrerOnFullyQualifiedLinks", "AddTargetBlankToFullyQualifiedLinks"}
	for mask := 0; mask < 32; mask++ {
		for rel := 0; rel < 3; rel++ {
			for tgt := 0; tgt < 2; tgt++ {
				calls := []C{
					attrsOn([]string{"href", "title"}, "", "a", "area", "link"),
					{Op: "AllowURLSchemes", Names: []string{"http", "https", "mailto", "ftp"}},
					opt("AllowRelativeURLs", true),
				}
				switch rel {
				case 1:
					calls = append(calls, attrsOn([]string{"rel"}, "", "a", "area", "link"))
				case 2:
					calls = append(calls, attrsOn([]string{"rel"}, "SpaceSeparatedTokens", "a", "area", "link"))
				}
				if tgt == 1 {
					calls = append(calls, attrsOn([]string{"target"}, "", "a", "area", "link"))
				}
				for i, n := range optNames {
					if mask&(1<<i) != 0 {
						calls = append(calls, opt(n, true))
					}
				}
				out = append(out, spec.Spec{Name: fmt.Sprintf("c11-opt%02d-rel%d-target%d", mask, rel, tgt), Base: "new", Calls: calls})
			}
		}
	}
	// options switched on and then off again (and the other way round): the last setting of each counts
	toggles := [][]C{
		{opt("RequireNoFollowOnFullyQualifiedLinks", true), opt("RequireNoFollowOnLinks", false)},
		{opt("RequireNoFollowOnLinks", false), opt("RequireNoFollowOnFullyQualifiedLinks", true)},
		{opt("RequireNoReferrerOnFullyQualifiedLinks", true), opt("RequireNoReferrerOnLinks", false), opt("AddTargetBlankToFullyQualifiedLinks", true), opt("AddTargetBlankToFullyQualifiedLinks", false)},
		{opt("RequireNoFollowOnLinks", true), opt("RequireNoFollowOnFullyQualifiedLinks", false), opt("RequireNoReferrerOnLinks", true), opt("RequireNoReferrerOnFullyQualifiedLinks", false)},
		{opt("AddTargetBlankToFullyQualifiedLinks", true), opt("RequireNoFollowOnLinks", false), opt("RequireNoReferrerOnLinks", false)},
		{opt("RequireNoFollowOnLinks", true), opt("RequireNoFollowOnLinks", false), opt("RequireNoReferrerOnFullyQualifiedLinks", true)},
	}
	for ti, tg := range toggles {
		for rel := 0; rel < 2; rel++ {
			calls := []C{attrsOn([]string{"href", "title", "target"}, "", "a", "area", "link"), {Op: "AllowURLSchemes", Names: []string{"http", "https", "mailto", "ftp"}}, opt("AllowRelativeURLs", true)}
			if rel == 1 {
				calls = append(calls, attrsOn([]string{"rel"}, "", "a", "area", "link"))
			}
			calls = append(calls, tg...)
			out = append(out, spec.Spec{Name: fmt.Sprintf("c11-toggle%d-rel%d", ti, rel), Base: "new", Calls: calls})
		}
	}
	// a link option switches URL parsing on; a caller may switch it off again afterwards, and then hrefs that
	// net/url cannot parse (but a browser follows) reach the hardening pass
	for _, mask := range []int{1, 2, 8, 16, 26, 31} {
		calls := []C{attrsOn([]string{"href", "title", "rel", "target"}, "", "a", "area", "link"), {Op: "AllowURLSchemes", Names: []string{"http", "https", "mailto", "ftp"}}, opt("AllowRelativeURLs", true)}
		for i, n := range optNames {
			if mask&(1<<i) != 0 {
				calls = append(calls, opt(n, true))
			}
		}
		calls = append(calls, opt("RequireParseableURLs", false))
		out = append(out, spec.Spec{Name: fmt.Sprintf("c11-opt%02d-unparsed", mask), Base: "new", Calls: calls})
	}
	out = append(out, specsByName("ugc", "cmd-ugc", "cmd-email", "links")...)
	return buildAll(out)
}

// hrefHasHost: does a browser resolve v (as written in the output) to a URL with a host of its own? For the special
// schemes (http, https, ftp, ws, wss) the slashes are optional for a browser ("https:e.x/p" and "http:/e.x" name the host e.x).
func hrefHasHost(v string) bool {
	// a browser strips leading and trailing C0 controls and spaces and removes tab / newline before it parses
	s := strings.ToLower(strings.TrimFunc(v, func(r rune) bool { return r <= 0x20 }))
	s = strings.NewReplacer("\t", "", "\n", "", "\r", "").Replace(s)
	for _, p := range []string{"http:", "https:", "ftp:", "ws:", "wss:"} {
		if strings.HasPrefix(s, p) {
			return strings.Trim(s[len(p):], "/\\") != ""
		}
	}
	return strings.HasPrefix(s, "//") && len(s) > 2 && s[2] != '/'
}

func firstAttr(as []html.Attribute, key string) (string, bool) {
	for _, a := range as {
		if a.Key == key {
			return a.Val, true
		}
	}
	return "", false
}

func attrsNamed(as []html.Attribute, key string) []string {
	var out []string
	for _, a := range as {
		if a.Key == key {
			out = append(out, a.Val)
		}
	}
	return out
}

// judgeC11 checks one input tag / output tag pair.
func judgeC11(v *spec.View, in, out obs.Tok) (sig, what string, applied bool) {
	el := out.Name
	if el != "a" && el != "area" && el != "link" {
		return
	}
	href, ok := firstAttr(out.Attr, "href")
	if !ok {
		return
	}
	host := hrefHasHost(href)
	needNF := v.NoFollow || (v.NoFollowFQ && host)
	needNR := v.NoReferrer || (v.NoReferrerFQ && host)
	rel, hasRel := firstAttr(out.Attr, "rel")
	if needNF {
		applied = true
		if !hasRel || !obs.HasToken(rel, "nofollow") {
			return "missing|nofollow", fmt.Sprintf("<%s href=%s> lacks the rel token nofollow (first rel=%s)", el, run.Q(href), run.Q(rel)), true
		}
	}
	if needNR {
		applied = true
		if !hasRel || !obs.HasToken(rel, "noreferrer") {
			return "missing|noreferrer", fmt.Sprintf("<%s href=%s> lacks the rel token noreferrer (first rel=%s)", el, run.Q(href), run.Q(rel)), true
		}
	}
	tgt, hasT := firstAttr(out.Attr, "target")
	if el == "a" && v.TargetBlank && host {
		applied = true
		if !hasT || obs.ASCIILower(tgt) != "_blank" {
			return "missing|target-blank", fmt.Sprintf("<a href=%s> with a host lacks target=\"_blank\" (first target=%s)", run.Q(href), run.Q(tgt)), true
		}
	}
	isBlank := hasT && obs.ASCIILower(tgt) == "_blank" // a browser matches the keyword ASCII case-insensitively
	if el == "a" && v.LinkOptionOn() && isBlank {
		applied = true
		if !hasRel || !obs.HasToken(rel, "noopener") {
			return "missing|noopener", fmt.Sprintf("<a href=%s target=\"_blank\"> lacks the rel token noopener (first rel=%s)", run.Q(href), run.Q(rel)), true
		}
	}
	// a token no option asks for on this link is not added (the first input rel that survives is the baseline)
	if hasRel && len(attrsNamed(out.Attr, "href")) == 1 && len(attrsNamed(out.Attr, "target")) <= 1 {
		base := strings.Join(attrsNamed(in.Attr, "rel"), " ") // every token the input carried in any rel attribute
		for tk, need := range map[string]bool{"nofollow": needNF, "noreferrer": needNR,
			"noopener": el == "a" && v.LinkOptionOn() && isBlank} {
			if !need && obs.HasToken(rel, tk) && !obs.HasToken(base, tk) {
				return "added-unrequired|" + tk, fmt.Sprintf("<%s href=%s>: rel token %s was added although no option requires it on this link (rel=%s)", el, run.Q(href), tk, run.Q(rel)), true
			}
		}
	}
	if !v.LinkOptionOn() {
		return
	}
	// existing tokens kept, required tokens not duplicated
	var surv []string
	for _, r := range attrsNamed(in.Attr, "rel") {
		rules := v.AttrRules(el, "rel")
		for _, ru := range rules {
			if ru.Re == nil || ru.Re.MatchString(r) {
				surv = append(surv, r)
				break
			}
		}
	}
	outRels := attrsNamed(out.Attr, "rel")
	if len(outRels) < len(surv) || len(outRels) > len(surv)+1 {
		return "rel-count", fmt.Sprintf("<%s>: %d admissible rel attributes in, %d out", el, len(surv), len(outRels)), true
	}
	for i, r := range surv {
		for _, tk := range obs.RelTokens(r) {
			if !obs.HasToken(outRels[i], tk) {
				return "rel-token-lost", fmt.Sprintf("<%s>: rel token %q of the input is missing from the output rel %s", el, tk, run.Q(outRels[i])), true
			}
		}
	}
	if hasRel {
		inFirst := ""
		if len(surv) > 0 {
			inFirst = surv[0]
		}
		for _, tk := range []string{"nofollow", "noreferrer", "noopener"} {
			lim := obs.CountToken(inFirst, tk)
			if lim < 1 {
				lim = 1
			}
			if obs.CountToken(rel, tk) > lim {
				return "duplicated|" + tk, fmt.Sprintf("<%s>: rel token %s repeated in %s (input rel %s)", el, tk, run.Q(rel), run.Q(inFirst)), true
			}
		}
	}
	return
}

func judgeC11Doc(v *spec.View, in, out string) (sig, what string, applied bool) {
	var inTags, outTags []obs.Tok
	for _, t := range obs.Retok(in) {
		if t.Type == html.StartTagToken || t.Type == html.SelfClosingTagToken {
			inTags = append(inTags, t)
		}
	}
	for _, t := range obs.Retok(out) {
		if t.Type == html.StartTagToken || t.Type == html.SelfClosingTagToken {
			outTags = append(outTags, t)
		}
	}
	pos := 0
	for _, ot := range outTags {
		var it obs.Tok
		for pos < len(inTags) {
			if inTags[pos].Name == ot.Name {
				it = inTags[pos]
				pos++
				break
			}
			pos++
		}
		s, w, a := judgeC11(v, it, ot)
		applied = applied || a
		if s != "" {
			return s, w, true
		}
	}
	return "", "", applied
}

func runC11(c *run.Ctx) {
	bs := c11Specs()
	la := linkAttrAlphabet()
	k := 3
	if !c.Quick() {
		k = 4
	}
	for _, el := range []string{"a", "area", "link"} {
		SeqsS(c, "c11"+el, la, 0, k, func(attrs []byte, idx []int) {
			doc := "<" + el + string(attrs) + ">"
			c.States++
			set := bs
			if len(idx) == 4 {
				set = nil
				for i := range bs {
					if (i+int(attrs[len(attrs)-2]))%6 == 0 || !strings.HasPrefix(bs[i].S.Name, "c11-") {
						set = append(set, bs[i])
					}
				}
			}
			for i := range set {
				b := &set[i]
				c.Trace(func() string { return b.S.String() + "\n" + run.Q(doc) })
				out, pm := San(b.P, doc)
				c.Eval()
				c.Transitions++
				c.Traces++
				if pm != "" {
					c.Violate("panic", "Sanitize panicked: "+pm, mkCase(b.S, []byte(doc)))
					continue
				}
				sig, what, applied := judgeC11Doc(b.V, doc, out)
				if applied {
					c.Nontrivial([]byte(b.S.Name), []byte(doc))
				}
				if sig != "" {
					c.Violate(sig, fmt.Sprintf("%s; policy=%s input=%s output=%s", what, b.S.Name, run.Q(doc), run.Q(out)), mkCase(b.S, []byte(doc)))
					c.Outcome("violation|" + sig)
					continue
				}
				switch {
				case out == "":
					c.Outcome("tag-dropped")
				case !applied:
					c.Outcome("no-requirement-applies")
				default:
					c.Outcome("requirements-met")
					if c.WantSample() && len(idx) >= 2 {
						c.Sample(map[string]string{"policy": b.S.Name, "input": doc, "output": out})
					}
				}
			}
		})
	}
	if c.Shard == 0 {
		c.Notes["policies"] = float64(len(bs))
	}
}

func replayC11(raw json.RawMessage) (bool, string) {
	cs, in := parseCase(raw)
	b := build(cs.Spec)
	out, pm := San(b.P, string(in))
	if pm != "" {
		return true, "panic: " + pm
	}
	sig, what, _ := judgeC11Doc(b.V, string(in), out)
	return sig != "", what + " output=" + run.Q(out)
}
