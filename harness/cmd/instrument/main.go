// instrument generates, from /repo's current working tree, an overlay that adds
// verification hooks to packages bluemonday and css without touching /repo:
//
//   - VerifPoint(id) before every statement of package bluemonday and at function
//     entries / loop heads of package css (scheduling point, step counter);
//   - every `range` over a map rewritten to range over VerifMapKeys(site, m), so
//     that iteration order is sorted by default and an explorer choice otherwise;
//   - VerifLoopState at the head of the token loop (the for-loop that calls
//     Next() on an *html.Tokenizer), dumping the function's locals;
//   - VerifSnapshot / VerifGlobals: a deep dump of a Policy and of every
//     package-level variable.
//
// usage: instrument -repo /repo -out DIR   (writes DIR/overlay.json)
package main

import (
	"bytes"
	"encoding/json"
	"flag"
	"fmt"
	"go/ast"
	"go/format"
	"go/importer"
	"go/parser"
	"go/token"
	"go/types"
	"os"
	"path/filepath"
	"sort"
	"strings"
)

type report struct {
	Points        int      `json:"points"`
	MapRanges     int      `json:"map_ranges"`
	MapRangeSites []string `json:"map_range_sites"`
	TokenLoop     string   `json:"token_loop"`
	LoopLocals    []string `json:"loop_locals"`
	Globals       []string `json:"globals"`
	TypeErrors    []string `json:"type_errors,omitempty"`
}

var (
	rep      report
	pointSeq int
	siteSeq  int
)

func main() {
	repo := flag.String("repo", "/repo", "repository root")
	out := flag.String("out", "", "output directory")
	flag.Parse()
	if *out == "" {
		fmt.Fprintln(os.Stderr, "instrument: -out required")
		os.Exit(2)
	}
	if err := os.Chdir(*repo); err != nil {
		die(err)
	}
	overlay := map[string]string{}
	for _, pk := range []struct{ dir, name string }{{"css", "css"}, {".", "bluemonday"}} {
		dir := filepath.Join(*repo, pk.dir)
		fset := token.NewFileSet()
		pkgs, err := parser.ParseDir(fset, dir, func(fi os.FileInfo) bool { return !strings.HasSuffix(fi.Name(), "_test.go") }, parser.ParseComments)
		if err != nil {
			die(err)
		}
		p := pkgs[pk.name]
		if p == nil {
			die(fmt.Errorf("package %s not found in %s", pk.name, dir))
		}
		var files []*ast.File
		var names []string
		for n := range p.Files {
			names = append(names, n)
		}
		sort.Strings(names)
		for _, n := range names {
			files = append(files, p.Files[n])
		}
		info := &types.Info{Types: map[ast.Expr]types.TypeAndValue{}, Defs: map[*ast.Ident]types.Object{}, Uses: map[*ast.Ident]types.Object{}, Scopes: map[ast.Node]*types.Scope{}}
		conf := types.Config{Importer: importer.ForCompiler(fset, "source", nil), Error: func(err error) {
			if len(rep.TypeErrors) < 5 {
				rep.TypeErrors = append(rep.TypeErrors, err.Error())
			}
		}}
		tpkg, _ := conf.Check(pk.name, fset, files, info)
		odir := filepath.Join(*out, pk.name)
		os.MkdirAll(odir, 0o755)
		var globals []string
		if tpkg != nil {
			sc := tpkg.Scope()
			for _, n := range sc.Names() {
				if v, ok := sc.Lookup(n).(*types.Var); ok && !v.IsField() {
					globals = append(globals, n)
				}
			}
		}
		for i, f := range files {
			instrumentFile(fset, f, info, pk.name)
			var buf bytes.Buffer
			if err := format.Node(&buf, fset, f); err != nil {
				die(fmt.Errorf("%s: %v", names[i], err))
			}
			dst := filepath.Join(odir, filepath.Base(names[i]))
			if err := os.WriteFile(dst, buf.Bytes(), 0o644); err != nil {
				die(err)
			}
			overlay[names[i]] = dst
		}
		rt := filepath.Join(odir, "zz_verif_rt.go")
		src := rtCSS
		if pk.name == "bluemonday" {
			src = rtBluemonday
		}
		var gl strings.Builder
		for _, g := range globals {
			fmt.Fprintf(&gl, "\t%q: &%s,\n", pk.name+"."+g, g)
			rep.Globals = append(rep.Globals, pk.name+"."+g)
		}
		src = strings.Replace(src, "/*GLOBALS*/", gl.String(), 1)
		if err := os.WriteFile(rt, []byte(src), 0o644); err != nil {
			die(err)
		}
		overlay[filepath.Join(dir, "zz_verif_rt.go")] = rt
	}
	rep.Points = pointSeq
	rep.MapRanges = siteSeq
	ob, _ := json.MarshalIndent(map[string]interface{}{"Replace": overlay}, "", " ")
	if err := os.WriteFile(filepath.Join(*out, "overlay.json"), ob, 0o644); err != nil {
		die(err)
	}
	rb, _ := json.MarshalIndent(rep, "", " ")
	os.WriteFile(filepath.Join(*out, "report.json"), rb, 0o644)
}

func die(err error) {
	fmt.Fprintln(os.Stderr, "instrument:", err)
	os.Exit(1)
}

func pointCall(pkg string) ast.Stmt {
	pointSeq++
	return &ast.ExprStmt{X: &ast.CallExpr{Fun: ast.NewIdent("VerifPoint"), Args: []ast.Expr{&ast.BasicLit{Kind: token.INT, Value: fmt.Sprint(pointSeq)}}}}
}

func instrumentFile(fset *token.FileSet, f *ast.File, info *types.Info, pkg string) {
	for _, d := range f.Decls {
		fd, ok := d.(*ast.FuncDecl)
		if !ok || fd.Body == nil {
			continue
		}
		if pkg == "bluemonday" {
			findTokenLoop(fset, fd, info)
		}
		rewriteMapRanges(fset, fd.Body, info, fd.Name.Name)
		if pkg == "bluemonday" {
			addPointsEveryStmt(fd.Body, pkg)
		} else {
			addPointsCoarse(fd.Body, pkg)
		}
	}
}

// addPointsEveryStmt inserts a VerifPoint before every statement of every block.
func addPointsEveryStmt(root ast.Node, pkg string) {
	var visit func(n ast.Node)
	doList := func(list []ast.Stmt) []ast.Stmt {
		var out []ast.Stmt
		for _, s := range list {
			if isVerifCall(s) {
				out = append(out, s)
				continue
			}
			out = append(out, pointCall(pkg), s)
		}
		return out
	}
	visit = func(n ast.Node) {
		ast.Inspect(n, func(x ast.Node) bool {
			switch b := x.(type) {
			case *ast.BlockStmt:
				if b != nil {
					for _, s := range b.List {
						visit(s)
					}
					b.List = doList(b.List)
					return false
				}
			case *ast.SwitchStmt:
				if b.Init != nil {
					visit(b.Init)
				}
				for _, cl := range b.Body.List {
					visit(cl)
				}
				return false
			case *ast.TypeSwitchStmt:
				for _, cl := range b.Body.List {
					visit(cl)
				}
				return false
			case *ast.SelectStmt:
				for _, cl := range b.Body.List {
					visit(cl)
				}
				return false
			case *ast.CaseClause:
				for _, s := range b.Body {
					visit(s)
				}
				b.Body = doList(b.Body)
				return false
			case *ast.CommClause:
				for _, s := range b.Body {
					visit(s)
				}
				b.Body = doList(b.Body)
				return false
			}
			return true
		})
	}
	visit(root)
}

func isVerifCall(s ast.Stmt) bool {
	es, ok := s.(*ast.ExprStmt)
	if !ok {
		return false
	}
	ce, ok := es.X.(*ast.CallExpr)
	if !ok {
		return false
	}
	id, ok := ce.Fun.(*ast.Ident)
	return ok && strings.HasPrefix(id.Name, "Verif")
}

// addPointsCoarse inserts a point at function entry and at the head of every loop body.
func addPointsCoarse(body *ast.BlockStmt, pkg string) {
	ast.Inspect(body, func(x ast.Node) bool {
		switch l := x.(type) {
		case *ast.ForStmt:
			l.Body.List = append([]ast.Stmt{pointCall(pkg)}, l.Body.List...)
		case *ast.RangeStmt:
			l.Body.List = append([]ast.Stmt{pointCall(pkg)}, l.Body.List...)
		}
		return true
	})
	body.List = append([]ast.Stmt{pointCall(pkg)}, body.List...)
}

// rewriteMapRanges turns `for k, v := range m` (m of map type) into a loop over
// VerifMapKeys(site, m).
func rewriteMapRanges(fset *token.FileSet, body *ast.BlockStmt, info *types.Info, fn string) {
	ast.Inspect(body, func(x ast.Node) bool {
		rs, ok := x.(*ast.RangeStmt)
		if !ok {
			return true
		}
		tv, ok := info.Types[rs.X]
		if !ok || tv.Type == nil {
			return true
		}
		if _, isMap := tv.Type.Underlying().(*types.Map); !isMap {
			return true
		}
		siteSeq++
		site := siteSeq
		rep.MapRangeSites = append(rep.MapRangeSites, fmt.Sprintf("%d: %s %s", site, fn, fset.Position(rs.Pos())))
		kv := ast.NewIdent(fmt.Sprintf("verifKey%d", site))
		mapExpr := rs.X
		var pre []ast.Stmt
		blank := func(e ast.Expr) bool {
			if e == nil {
				return true
			}
			id, ok := e.(*ast.Ident)
			return ok && id.Name == "_"
		}
		tok := rs.Tok
		if tok == token.ILLEGAL {
			tok = token.DEFINE
		}
		if !blank(rs.Key) {
			pre = append(pre, &ast.AssignStmt{Lhs: []ast.Expr{rs.Key}, Tok: tok, Rhs: []ast.Expr{kv}})
			if tok == token.DEFINE {
				pre = append(pre, &ast.AssignStmt{Lhs: []ast.Expr{ast.NewIdent("_")}, Tok: token.ASSIGN, Rhs: []ast.Expr{rs.Key}})
			}
		}
		if !blank(rs.Value) {
			pre = append(pre, &ast.AssignStmt{Lhs: []ast.Expr{rs.Value}, Tok: tok, Rhs: []ast.Expr{&ast.IndexExpr{X: mapExpr, Index: kv}}})
			if tok == token.DEFINE {
				pre = append(pre, &ast.AssignStmt{Lhs: []ast.Expr{ast.NewIdent("_")}, Tok: token.ASSIGN, Rhs: []ast.Expr{rs.Value}})
			}
		}
		rs.Key = ast.NewIdent("_")
		rs.Value = kv
		rs.Tok = token.DEFINE
		rs.X = &ast.CallExpr{Fun: ast.NewIdent("VerifMapKeys"), Args: []ast.Expr{&ast.BasicLit{Kind: token.INT, Value: fmt.Sprint(site)}, mapExpr}}
		rs.Body.List = append(pre, rs.Body.List...)
		return true
	})
}

// findTokenLoop locates the for-loop whose body calls Next() on an *html.Tokenizer
// and inserts a VerifLoopState call dumping the enclosing function's locals.
func findTokenLoop(fset *token.FileSet, fd *ast.FuncDecl, info *types.Info) {
	if rep.TokenLoop != "" {
		return
	}
	var loop *ast.ForStmt
	ast.Inspect(fd.Body, func(x ast.Node) bool {
		fs, ok := x.(*ast.ForStmt)
		if !ok || loop != nil {
			return true
		}
		found := false
		ast.Inspect(fs.Body, func(y ast.Node) bool {
			ce, ok := y.(*ast.CallExpr)
			if !ok {
				return true
			}
			se, ok := ce.Fun.(*ast.SelectorExpr)
			if !ok || se.Sel.Name != "Next" {
				return true
			}
			if tv, ok := info.Types[se.X]; ok && tv.Type != nil && strings.HasSuffix(tv.Type.String(), "html.Tokenizer") {
				found = true
			}
			return true
		})
		if found {
			loop = fs
		}
		return true
	})
	if loop == nil {
		return
	}
	// locals declared at function scope before the loop
	var locals []string
	skipType := func(t types.Type) bool {
		s := t.String()
		return strings.Contains(s, "html.Tokenizer") || strings.HasSuffix(s, "io.Reader") || strings.HasSuffix(s, "io.Writer") ||
			strings.Contains(s, "stringWriterWriter") || strings.Contains(s, "html.Token")
	}
	add := func(id *ast.Ident) {
		if id.Name == "_" {
			return
		}
		obj := info.Defs[id]
		if obj == nil || skipType(obj.Type()) {
			return
		}
		locals = append(locals, id.Name)
	}
	for _, s := range fd.Body.List {
		if s == ast.Stmt(loop) {
			break
		}
		switch st := s.(type) {
		case *ast.DeclStmt:
			if gd, ok := st.Decl.(*ast.GenDecl); ok && gd.Tok == token.VAR {
				for _, sp := range gd.Specs {
					for _, id := range sp.(*ast.ValueSpec).Names {
						add(id)
					}
				}
			}
		case *ast.AssignStmt:
			if st.Tok == token.DEFINE {
				for _, l := range st.Lhs {
					if id, ok := l.(*ast.Ident); ok {
						add(id)
					}
				}
			}
		}
	}
	rep.TokenLoop = fd.Name.Name + " " + fset.Position(loop.Pos()).String()
	rep.LoopLocals = locals
	var args []ast.Expr
	var fmtParts []string
	for _, l := range locals {
		fmtParts = append(fmtParts, l+"=%#v")
		args = append(args, ast.NewIdent(l))
	}
	call := &ast.CallExpr{Fun: ast.NewIdent("VerifSprintf"), Args: append([]ast.Expr{&ast.BasicLit{Kind: token.STRING, Value: fmt.Sprintf("%q", strings.Join(fmtParts, ";"))}}, args...)}
	fl := &ast.FuncLit{Type: &ast.FuncType{Params: &ast.FieldList{}, Results: &ast.FieldList{List: []*ast.Field{{Type: ast.NewIdent("string")}}}},
		Body: &ast.BlockStmt{List: []ast.Stmt{&ast.ReturnStmt{Results: []ast.Expr{call}}}}}
	stmt := &ast.ExprStmt{X: &ast.CallExpr{Fun: ast.NewIdent("VerifLoopState"), Args: []ast.Expr{fl}}}
	loop.Body.List = append([]ast.Stmt{stmt}, loop.Body.List...)
}

const rtCSS = `package css

// Generated by /verif/harness/cmd/instrument. Not part of the repository.

// VerifHook, when set, is called at every instrumented point of both packages.
var VerifHook func(id int)

// VerifPoint is an instrumented point of package css.
func VerifPoint(id int) {
	if h := VerifHook; h != nil {
		h(1000000 + id)
	}
}

// VerifMapOrderHook, when set, permutes the sorted key order of a map range
// site: it receives the site and the number of keys and returns a permutation.
var VerifMapOrderHook func(site, n int) []int

// VerifGlobalsCSS lists pointers to every package-level variable of package css.
var VerifGlobalsCSS = map[string]interface{}{
/*GLOBALS*/}
`

const rtBluemonday = `package bluemonday

// Generated by /verif/harness/cmd/instrument. Not part of the repository.

import (
	"fmt"
	"reflect"
	"regexp"
	"sort"
	"strings"
	"unsafe"

	"github.com/microcosm-cc/bluemonday/css"
)

// VerifPoint is an instrumented point of package bluemonday.
func VerifPoint(id int) {
	if h := css.VerifHook; h != nil {
		h(id)
	}
}

// VerifSprintf formats the token-loop locals.
func VerifSprintf(format string, args ...interface{}) string { return fmt.Sprintf(format, args...) }

// VerifLoopStateHook, when set, receives a closure that renders the locals of
// the token loop at the head of every iteration.
var VerifLoopStateHook func(render func() string)

// VerifLoopState is called at the head of every iteration of the token loop.
func VerifLoopState(render func() string) {
	if h := VerifLoopStateHook; h != nil {
		h(render)
	}
}

func verifKeyString(k interface{}) string {
	switch x := k.(type) {
	case string:
		return x
	case *regexp.Regexp:
		return x.String()
	case fmt.Stringer:
		return x.String()
	}
	return fmt.Sprint(k)
}

// VerifMapKeys returns the keys of m in sorted order, or in the order chosen by
// css.VerifMapOrderHook for this site.
func VerifMapKeys[K comparable, V any](site int, m map[K]V) []K {
	keys := make([]K, 0, len(m))
	for k := range m {
		keys = append(keys, k)
	}
	sort.SliceStable(keys, func(i, j int) bool {
		a, b := verifKeyString(keys[i]), verifKeyString(keys[j])
		if a != b {
			return a < b
		}
		return fmt.Sprintf("%p", any(keys[i])) < fmt.Sprintf("%p", any(keys[j]))
	})
	if h := css.VerifMapOrderHook; h != nil && len(keys) > 1 {
		perm := h(site, len(keys))
		if len(perm) == len(keys) {
			out := make([]K, len(keys))
			for i, p := range perm {
				out[i] = keys[p]
			}
			return out
		}
	}
	return keys
}

// VerifGlobals lists pointers to every package-level variable of package bluemonday.
var VerifGlobals = map[string]interface{}{
/*GLOBALS*/}

// VerifSnapshot renders the complete object graph of a policy together with
// every package-level variable of both packages. Regexps are rendered by
// pattern and identity, funcs by identity.
func VerifSnapshot(p *Policy) string {
	return VerifSnapshotPolicy(p) + VerifSnapshotGlobals()
}

// VerifSnapshotPolicy renders the object graph of the policy only.
func VerifSnapshotPolicy(p *Policy) string {
	var b strings.Builder
	seen := map[uintptr]bool{}
	b.WriteString("policy=")
	verifDump(&b, reflect.ValueOf(p), seen, 0)
	return b.String()
}

// VerifSnapshotGlobals renders every package-level variable of both packages.
func VerifSnapshotGlobals() string {
	var b strings.Builder
	seen := map[uintptr]bool{}
	names := make([]string, 0, len(VerifGlobals)+len(css.VerifGlobalsCSS))
	all := map[string]interface{}{}
	for k, v := range VerifGlobals {
		all[k] = v
	}
	for k, v := range css.VerifGlobalsCSS {
		all[k] = v
	}
	for k := range all {
		if k == "css.VerifHook" || k == "css.VerifMapOrderHook" || k == "css.VerifGlobalsCSS" || k == "bluemonday.VerifGlobals" || k == "bluemonday.VerifLoopStateHook" {
			continue
		}
		names = append(names, k)
	}
	sort.Strings(names)
	for _, k := range names {
		b.WriteString(";" + k + "=")
		verifDump(&b, reflect.ValueOf(all[k]).Elem(), seen, 0)
	}
	return b.String()
}

func verifDump(b *strings.Builder, v reflect.Value, seen map[uintptr]bool, depth int) {
	if depth > 12 {
		b.WriteString("...")
		return
	}
	if !v.IsValid() {
		b.WriteString("<invalid>")
		return
	}
	if v.CanAddr() && !v.CanInterface() {
		v = reflect.NewAt(v.Type(), unsafe.Pointer(v.UnsafeAddr())).Elem()
	}
	switch v.Kind() {
	case reflect.Ptr:
		if v.IsNil() {
			b.WriteString("nil")
			return
		}
		if v.Type() == reflect.TypeOf((*regexp.Regexp)(nil)) && v.CanInterface() {
			fmt.Fprintf(b, "re(%q@%x)", v.Interface().(*regexp.Regexp).String(), v.Pointer())
			return
		}
		if seen[v.Pointer()] {
			fmt.Fprintf(b, "^%x", v.Pointer())
			return
		}
		seen[v.Pointer()] = true
		b.WriteString("&")
		verifDump(b, v.Elem(), seen, depth+1)
	case reflect.Interface:
		if v.IsNil() {
			b.WriteString("nil")
			return
		}
		verifDump(b, v.Elem(), seen, depth+1)
	case reflect.Struct:
		b.WriteString(v.Type().Name() + "{")
		for i := 0; i < v.NumField(); i++ {
			f := v.Field(i)
			if !f.CanInterface() && f.CanAddr() {
				f = reflect.NewAt(f.Type(), unsafe.Pointer(f.UnsafeAddr())).Elem()
			}
			b.WriteString(v.Type().Field(i).Name + ":")
			verifDump(b, f, seen, depth+1)
			b.WriteString(",")
		}
		b.WriteString("}")
	case reflect.Map:
		if v.IsNil() {
			b.WriteString("nilmap")
			return
		}
		type kv struct {
			k string
			v reflect.Value
		}
		var items []kv
		it := v.MapRange()
		for it.Next() {
			var kb strings.Builder
			verifDump(&kb, it.Key(), seen, depth+1)
			items = append(items, kv{kb.String(), it.Value()})
		}
		sort.Slice(items, func(i, j int) bool { return items[i].k < items[j].k })
		b.WriteString("map[")
		for _, it := range items {
			b.WriteString(it.k + ":")
			verifDump(b, it.v, seen, depth+1)
			b.WriteString(",")
		}
		b.WriteString("]")
	case reflect.Slice, reflect.Array:
		if v.Kind() == reflect.Slice && v.IsNil() {
			b.WriteString("nilslice")
			return
		}
		fmt.Fprintf(b, "[%d:", v.Len())
		for i := 0; i < v.Len(); i++ {
			verifDump(b, v.Index(i), seen, depth+1)
			b.WriteString(",")
		}
		b.WriteString("]")
	case reflect.Func:
		if v.IsNil() {
			b.WriteString("nilfunc")
			return
		}
		fmt.Fprintf(b, "func@%x", v.Pointer())
	case reflect.String:
		fmt.Fprintf(b, "%q", v.String())
	case reflect.Bool:
		fmt.Fprintf(b, "%v", v.Bool())
	case reflect.Int, reflect.Int8, reflect.Int16, reflect.Int32, reflect.Int64:
		fmt.Fprintf(b, "%d", v.Int())
	case reflect.Uint, reflect.Uint8, reflect.Uint16, reflect.Uint32, reflect.Uint64, reflect.Uintptr:
		fmt.Fprintf(b, "%d", v.Uint())
	default:
		fmt.Fprintf(b, "<%s>", v.Kind())
	}
}
`
