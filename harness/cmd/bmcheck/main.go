// bmcheck runs the property checks for microcosm-cc/bluemonday.
//
//	bmcheck run <ID> <quick|thorough>
//	bmcheck shard <ID> <tier> <i> <n> <outfile>      (internal)
//	bmcheck replay <path>
//	bmcheck list
package main

import (
	"fmt"
	"os"
	"strconv"

	"verif/harness/internal/checks"
	"verif/harness/internal/run"
)

func main() {
	if len(os.Args) < 2 {
		fmt.Fprintln(os.Stderr, "usage: bmcheck run <ID> <tier> | replay <path> | list")
		os.Exit(2)
	}
	switch os.Args[1] {
	case "list":
		for _, id := range checks.IDs() {
			fmt.Println(id)
		}
	case "run":
		if len(os.Args) < 4 {
			os.Exit(2)
		}
		ck := checks.All[os.Args[2]]
		if ck == nil {
			fmt.Fprintln(os.Stderr, "unknown check", os.Args[2])
			os.Exit(2)
		}
		os.Exit(run.Main(ck, os.Args[3]))
	case "shard":
		ck := checks.All[os.Args[2]]
		i, _ := strconv.Atoi(os.Args[4])
		n, _ := strconv.Atoi(os.Args[5])
		run.RunShard(ck, os.Args[3], i, n, os.Args[6])
	case "racebody":
		os.Exit(checks.RaceBody())
	case "pristine":
		os.Exit(checks.Pristine())
	case "confirm":
		ck := checks.All[os.Args[2]]
		if ck == nil {
			os.Exit(2)
		}
		os.Exit(run.Confirm(ck, os.Args[3]))
	case "replay":
		os.Exit(run.ReplayFile(checks.All, os.Args[2]))
	default:
		os.Exit(2)
	}
}
